#!/usr/bin/env python3
"""Re-run the own-property check (quick; thorough only if quick passes) against every seeded change in /verif/seeded,
applying each patch to /repo and reverting it. Updates meta.json['final_recheck'] and prints a summary table."""
import json, os, subprocess, sys, time, glob

def sh(cmd, cwd=None, timeout=3000):
    try:
        p = subprocess.run(cmd, shell=True, cwd=cwd, capture_output=True, text=True, timeout=timeout)
        return p.returncode, p.stdout + p.stderr
    except subprocess.TimeoutExpired:
        return 124, "timeout"

names = sorted(os.path.basename(d) for d in glob.glob('/verif/seeded/C*')) if len(sys.argv) < 2 else sys.argv[1:]
rc, out = sh("git -C /repo status --porcelain --untracked-files=no")
assert out.strip() == "", "/repo has uncommitted changes"
summary = []
for n in names:
    d = os.path.join('/verif/seeded', n)
    meta = json.load(open(os.path.join(d, 'meta.json')))
    prop = meta['property']
    patch = os.path.join(d, 'patch.diff')
    rc, out = sh("git -C /repo apply %s" % patch)
    if rc != 0:
        summary.append((n, prop, 'PATCH-DOES-NOT-APPLY', '')); continue
    try:
        t0 = time.time()
        rc, out = sh("./check %s --tier quick" % prop, cwd="/verif")
        res = {"quick_exit": rc, "quick_s": round(time.time() - t0, 1), "signatures": [l.strip()[11:] for l in out.splitlines() if l.startswith("  signature:")][:6]}
        if rc != 1:
            t0 = time.time()
            rc2, out2 = sh("./check %s --tier thorough" % prop, cwd="/verif")
            res.update({"thorough_exit": rc2, "thorough_s": round(time.time() - t0, 1), "signatures": [l.strip()[11:] for l in out2.splitlines() if l.startswith("  signature:")][:6]})
    finally:
        sh("git -C /repo reset -q && git -C /repo checkout -- .")
    meta['final_recheck'] = res
    json.dump(meta, open(os.path.join(d, 'meta.json'), 'w'), indent=1)
    verdict = 'quick' if res['quick_exit'] == 1 else ('thorough' if res.get('thorough_exit') == 1 else 'MISSED(exit %s/%s)' % (res['quick_exit'], res.get('thorough_exit')))
    summary.append((n, prop, verdict, res['signatures'][0] if res['signatures'] else ''))
    print(n, prop, verdict, res['quick_s'], flush=True)
sh("rm -rf /verif/replays/C*")
rc, out = sh("git -C /repo status --porcelain --untracked-files=no")
assert out.strip() == "", "/repo not clean at the end"
json.dump(summary, open('/verif/seeded/RECHECK.json', 'w'), indent=1)
print("missed:", [s for s in summary if not s[2] in ('quick', 'thorough')])
