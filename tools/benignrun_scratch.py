#!/usr/bin/env python3
"""benignrun in the scratch copy (/tmp/mrepo + /tmp/mharness): all 20 quick checks per patch."""
import json, os, subprocess, sys, time, shutil
env=dict(os.environ, CARGO_NET_OFFLINE='true', CARGO_TARGET_DIR='/tmp/mtarget', VERIF_DIR='/tmp/mverif')
ALL=["C%02d"%i for i in range(1,21)]
def sh(cmd, cwd=None, timeout=3000):
    try:
        p=subprocess.run(cmd,shell=True,cwd=cwd,capture_output=True,text=True,timeout=timeout,env=env)
        return p.returncode,p.stdout+p.stderr
    except subprocess.TimeoutExpired:
        return 124,'timeout'
name, patch = sys.argv[1:3]
CH = sys.argv[3].split(',') if len(sys.argv) > 3 else ALL
out_dir='/verif/benign/'+name
os.makedirs(out_dir,exist_ok=True)
shutil.copy(patch,out_dir+'/patch.diff')
rc,out=sh('git -C /tmp/mrepo status --porcelain'); assert out.strip()=='',out
rc,out=sh('git -C /tmp/mrepo apply %s'%patch); assert rc==0,out
res={"name":name,"checks":{}}
if CH != ALL and os.path.exists(out_dir+'/result.json'):
    try: res["checks"]=json.load(open(out_dir+'/result.json')).get("checks",{})
    except Exception: pass
try:
    rc,out=sh('cargo build --release --offline -q',cwd='/tmp/mharness')
    if rc!=0:
        res["build_failed"]=out[-600:]
    else:
        for c in CH:
            t=time.time()
            rc,out=sh('/tmp/mtarget/release/fdv-check %s --tier quick'%c)
            viol=[l for l in out.splitlines() if l.startswith('VIOLATION') or l.startswith('KNOWN-FINDING') or 'MACHINERY' in l]
            res["checks"][c]={"exit":rc,"wall_s":round(time.time()-t,1),"lines":[l.replace('/tmp/mverif','/verif') for l in viol[:6]]}
            if rc!=0 or viol:
                res["checks"][c]["detail"]=[l for l in out.splitlines() if l.strip().startswith(("signature:","detail:"))][:6]
finally:
    sh('git -C /tmp/mrepo reset -q && git -C /tmp/mrepo checkout -- .')
    sh('rm -rf /tmp/mverif/replays/*')
res["alarms"]=sorted(c for c,r in res["checks"].items() if r["exit"]!=0 or r["lines"])
json.dump(res,open(out_dir+'/result.json','w'),indent=1)
print(name,'alarms:',res["alarms"], res.get("build_failed","")[:200])
for c in res["alarms"]:
    print('  ',c,res["checks"][c]["exit"],[d[:260] for d in res["checks"][c].get("detail",[])[:2]])
