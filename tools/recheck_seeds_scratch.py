#!/usr/bin/env python3
"""Seed recheck in the scratch copy (/tmp/mrepo worktree of /repo HEAD + /tmp/mharness copy of the harness sources)."""
import json, os, subprocess, sys, time, glob
env=dict(os.environ, CARGO_NET_OFFLINE='true', CARGO_TARGET_DIR='/tmp/mtarget', VERIF_DIR='/tmp/mverif')
def sh(cmd, cwd=None, timeout=3000):
    try:
        p = subprocess.run(cmd, shell=True, cwd=cwd, capture_output=True, text=True, timeout=timeout, env=env)
        return p.returncode, p.stdout + p.stderr
    except subprocess.TimeoutExpired:
        return 124, "timeout"
names = sorted(os.path.basename(d) for d in glob.glob('/verif/seeded/C*')) if len(sys.argv) < 2 else sys.argv[1:]
out_all = {}
for n in names:
    d = os.path.join('/verif/seeded', n)
    meta = json.load(open(os.path.join(d, 'meta.json')))
    prop = meta['property']
    rc, out = sh("git -C /tmp/mrepo apply %s" % os.path.join(d, 'patch.diff'))
    if rc != 0:
        print(n, 'PATCH-DOES-NOT-APPLY', flush=True); continue
    try:
        rc, out = sh("cargo build --release --offline -q", cwd="/tmp/mharness")
        if rc != 0:
            print(n, "BUILD FAILED", out[-300:], flush=True); continue
        t0 = time.time()
        rc, out = sh("/tmp/mtarget/release/fdv-check %s --tier quick" % prop)
        res = {"quick_exit": rc, "quick_s": round(time.time() - t0, 1), "signatures": [l.strip()[11:] for l in out.splitlines() if l.startswith("  signature:")][:6],
               "where": "scratch worktree of /repo HEAD + copy of the final harness sources"}
    finally:
        sh("git -C /tmp/mrepo reset -q && git -C /tmp/mrepo checkout -- .")
    out_all[n] = res
    json.dump(out_all, open('/tmp/recheck_scratch.json', 'w'), indent=1)
    print(n, prop, 'quick' if rc == 1 else 'MISSED(exit %d)' % rc, res['quick_s'], flush=True)
print("missed:", [n for n, r in out_all.items() if r['quick_exit'] != 1])
