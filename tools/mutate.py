#!/usr/bin/env python3
"""Poor man's mutation testing of the checks: single-site mutants of the library sources in /tmp/mrepo, each built
into the harness copy /tmp/mharness and run against all 20 quick checks. Independent of /repo and /verif/target."""
import re, subprocess, sys, json, os, time, hashlib
REPO='/tmp/mrepo'
FILES=['libs/core/src/frame.rs','libs/core/src/message.rs','libs/core/src/page.rs','libs/core/src/sign_type.rs','libs/serial/src/serial_sign_bus.rs','libs/serial/src/serial_port.rs','libs/testing/src/odk.rs','libs/testing/src/virtual_sign_bus.rs','src/sign.rs']
def sh(cmd, cwd=None, timeout=900, env=None):
    try:
        p=subprocess.run(cmd,shell=True,cwd=cwd,capture_output=True,text=True,timeout=timeout,env=env)
        return p.returncode,p.stdout+p.stderr
    except subprocess.TimeoutExpired:
        return 124,'timeout'
def code_lines(path):
    src=open(os.path.join(REPO,path)).read().split('\n')
    out=[]
    for i,l in enumerate(src):
        if l.strip().startswith('#[cfg(test)]'): break
        t=l.strip()
        if t.startswith('//') or t.startswith('#') or not t: continue
        out.append(i)
    return src,out
OPS=[
 (r'==','!='),(r'!=','=='),(r'<=','<'),(r'>=','>'),(r'(?<![<=\-!>])<(?![<=])','<='),(r'(?<![=\->])>(?![>=])','>='),
 (r'&&','||'),(r'\|\|','&&'),(r'\btrue\b','false'),(r'\bfalse\b','true'),
 (r'\)\?;',');'),
 (r'\b0x([0-9A-Fa-f]{1,2})\b', lambda m: '0x%02X'%((int(m.group(1),16)+1)%256)),
 (r'(?<![\w.])(\d+)(?![\w.x])', lambda m: str(int(m.group(1))+1)),
 (r'\+= 1','+= 2'),(r'\.wrapping_add\(1\)','.wrapping_add(2)'),
]
muts=[]
for f in FILES:
    src,idx=code_lines(f)
    for i in idx:
        line=src[i]
        if 'fn ' in line and '{' in line and '(' in line and '->' in line: pass
        for k,(pat,rep) in enumerate(OPS):
            if k in (4,5) and re.search(r"<'|->|Vec<|Option<|Result<|Box<|Rc<|RefCell<|impl<|fn .*<|Cow<|::<|<T|<I|<P|<B|<R|<W|=> ", line): continue
            for m in re.finditer(pat,line):
                new=line[:m.start()]+(rep(m) if callable(rep) else rep)+line[m.end():]
                if new!=line: muts.append((f,i,k,m.start(),line,new))
        # statement deletion
        t=line.strip()
        if re.match(r'^self\.[a-z_\.]+(\(.*\))?( = .*)?;$',t) or re.match(r'^[a-z_\.]+\.(clear|push|extend_from_slice|resize)\(.*\);$',t):
            muts.append((f,i,99,0,line,line.replace(t,'/* deleted */')))
# deterministic subsample
muts.sort(key=lambda m: hashlib.md5(('%s:%d:%d:%d'%m[:4]).encode()).hexdigest())
N=int(sys.argv[1]) if len(sys.argv)>1 else 150
start=int(sys.argv[2]) if len(sys.argv)>2 else 0
sel=muts[start:start+N]
print(len(muts),'sites; running',len(sel),flush=True)
env=dict(os.environ, CARGO_NET_OFFLINE='true', CARGO_TARGET_DIR='/tmp/mtarget', VERIF_DIR='/tmp/mverif')
os.makedirs('/tmp/mverif',exist_ok=True)
open('/tmp/mverif/known_findings.txt','w').write('')
results=[]
for n,(f,i,k,pos,old,new) in enumerate(sel):
    path=os.path.join(REPO,f)
    src=open(path).read().split('\n')
    assert src[i]==old
    src[i]=new
    open(path,'w').write('\n'.join(src))
    rec={'file':f,'line':i+1,'old':old.strip(),'new':new.strip()}
    try:
        rc,out=sh('cargo build --release --offline -q',cwd='/tmp/mharness',env=env)
        if rc!=0:
            rec['result']='does-not-compile'
        else:
            caught=[];mach=[]
            for c in range(1,21):
                cid='C%02d'%c
                rc,out=sh('/tmp/mtarget/release/fdv-check %s --tier quick'%cid,env=dict(env,VERIF_BUDGET_S='30'),timeout=200)
                if rc==1: caught.append(cid)
                elif rc!=0: mach.append('%s:%d'%(cid,rc))
            rec['caught_by']=caught; rec['machinery']=mach
            rec['result']='caught' if caught else ('machinery-only' if mach else 'MISSED')
            if not caught:
                rc,out=sh('cargo test --workspace --no-fail-fast --offline -q 2>&1 | tail -30',cwd=REPO,env=dict(env,CARGO_TARGET_DIR='/tmp/mtarget-repo'),timeout=600)
                rec['repo_suite_passes']= (rc==0 and 'FAILED' not in out and 'error' not in out)
    finally:
        sh('git checkout -- .',cwd=REPO)
    results.append(rec)
    print(n,rec['result'],f,i+1,'|',old.strip()[:60],'=>',new.strip()[:60],'|',rec.get('caught_by',''),rec.get('machinery',''),rec.get('repo_suite_passes',''),flush=True)
    json.dump(results,open('/tmp/mutation_results_%d.json'%start,'w'),indent=1)
