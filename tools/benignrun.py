#!/usr/bin/env python3
"""Run every quick check against a property-preserving ("benign") change.

usage: benignrun.py <name> <patch.diff> [--checks C01,C02]
Applies the patch to /repo, confirms the repo's own suite passes with it (in a scratch worktree), runs all 20
quick checks, reverts /repo, and writes /verif/benign/<name>/{patch.diff,result.json}.
Any VIOLATION or non-zero exit is printed: it is either a false alarm of the machinery or a change that is
not benign after all, to be decided by reading the replay.
"""
import json, os, shutil, subprocess, sys, time

ALL = ["C%02d" % i for i in range(1, 21)]

def sh(cmd, cwd=None, timeout=7200):
    p = subprocess.run(cmd, shell=True, cwd=cwd, capture_output=True, text=True, timeout=timeout)
    return p.returncode, p.stdout + p.stderr

def main():
    name, patch = sys.argv[1:3]
    checks = ALL
    suite = True
    rest = sys.argv[3:]
    while rest:
        if rest[0] == "--checks":
            checks = rest[1].split(","); rest = rest[2:]
        elif rest[0] == "--no-suite":
            suite = False; rest = rest[1:]
        else:
            raise SystemExit("bad arg")
    out_dir = "/verif/benign/" + name
    os.makedirs(out_dir, exist_ok=True)
    shutil.copy(patch, out_dir + "/patch.diff")
    res = {"name": name, "checks": {}}
    # a partial re-run (--checks) keeps the recorded results of the checks that are not run again
    if checks != ALL and os.path.exists(out_dir + "/result.json"):
        try:
            res["checks"] = json.load(open(out_dir + "/result.json")).get("checks", {})
        except Exception:
            pass
    if suite:
        wt = "/tmp/wtb-" + name
        sh("git -C /repo worktree remove --force %s" % wt)
        rc, out = sh("git -C /repo worktree add --detach %s HEAD" % wt)
        assert rc == 0, out
        shutil.copy("/repo/Cargo.lock", wt)
        try:
            rc, out = sh("git apply %s" % os.path.abspath(patch), cwd=wt)
            assert rc == 0, "patch does not apply: " + out
            rc, out = sh("CARGO_TARGET_DIR=/tmp/wtv-target CARGO_NET_OFFLINE=true cargo test --workspace --no-fail-fast --offline 2>&1", cwd=wt)
            passed = sum(int(l.split("ok. ")[1].split(" passed")[0]) for l in out.splitlines() if l.startswith("test result: ok."))
            res["suite_with_change"] = {"exit": rc, "passed_incl_doctests": passed}
            assert rc == 0, "suite fails with the change:\n" + out[-1500:]
        finally:
            sh("git -C /repo worktree remove --force %s" % wt)
    rc, out = sh("git -C /repo status --porcelain")
    assert out.strip() == "", "/repo not clean: " + out
    rc, out = sh("git -C /repo apply %s" % os.path.abspath(patch))
    assert rc == 0, out
    alarms = []
    try:
        for c in checks:
            t = time.time()
            rc, out = sh("cd /verif && ./check %s 2>&1" % c)
            viol = [l for l in out.splitlines() if l.startswith("VIOLATION") or l.startswith("KNOWN-FINDING") or "MACHINERY" in l]
            res["checks"][c] = {"exit": rc, "wall_s": round(time.time() - t, 1), "lines": viol[:6]}
            if rc != 0 or viol:
                alarms.append(c)
                # keep the first replay for inspection
                det = [l for l in out.splitlines() if l.strip().startswith(("signature:", "detail:"))][:6]
                res["checks"][c]["detail"] = det
                for l in viol[:3]:
                    if "replay=" in l:
                        p = l.split("replay=")[1].strip()
                        if os.path.exists(p):
                            shutil.copy(p, out_dir + "/" + c + "-" + os.path.basename(p))
    finally:
        sh("git -C /repo reset -q && git -C /repo checkout -- .")
        sh("cd /verif && git checkout -- evidence; rm -rf /verif/replays/*")
    alarms = sorted(c for c, r in res["checks"].items() if r.get("exit") != 0 or r.get("lines"))
    res["alarms"] = alarms
    json.dump(res, open(out_dir + "/result.json", "w"), indent=1)
    print(name, "alarms:", alarms)
    for c in alarms:
        print("  ", c, res["checks"][c]["exit"], res["checks"][c]["lines"][:2], res["checks"][c].get("detail", [])[:2])

main()
