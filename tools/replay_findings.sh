#!/usr/bin/env bash
# Replays the recorded cases of the five repaired defects (findings/D*/...) against the current /repo tree, without
# any explorer. On the repaired tree every case must hold (exit 0); on a tree where a defect is back the replay
# prints its VIOLATION line again.
cd "$(dirname "$0")/.." || exit 2
rc=0
for f in findings/D*/*.json; do
  id=$(python3 -c "import json,sys; print(json.load(open('$f'))['property_id'])")
  out=$(./check "$id" --replay "$f" 2>&1); code=$?
  echo "$f -> exit $code: $(echo "$out" | tail -1 | cut -c1-120)"
  [ $code -ne 0 ] && rc=1
done
exit $rc
