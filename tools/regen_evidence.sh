#!/usr/bin/env bash
# Re-run every quick check on the current /repo tree so that the committed evidence describes quick runs.
cd "$(dirname "$0")/.." || exit 2
# on the reference tree an unmet coverage guard is a defect of the harness: make it fatal here
export VERIF_STRICT_GUARDS=1
rc=0
for i in $(seq -w 1 20); do
  out=$(./check C$i --tier quick 2>&1); code=$?
  echo "$out" | grep -E "^\[C$i\] tier|VIOLATION|MACHINERY|KNOWN" | cut -c1-160
  if [ $code -ne 0 ]; then rc=1; echo "C$i exit $code"; fi
done
rm -rf replays/*
exit $rc
