#!/usr/bin/env python3
"""Confirm a seeded change in a scratch worktree, then run our checks against it on /repo.

usage: seedrun.py <name> <prop> <srcdir> <k> <demo_rel_dir> <pkg> [--checks C01,C03] [--thorough]
  <name>         e.g. C01-1 (directory under /verif/seeded)
  <srcdir>       directory holding change<k>.diff and demo<k>.rs
  <demo_rel_dir> where the demo goes, relative to the repo root (tests or libs/core/tests ...)
  <pkg>          cargo package owning that tests dir (flipdot, flipdot-core, flipdot-serial, flipdot-testing)
"""
import json, os, shutil, subprocess, sys, time

def sh(cmd, cwd=None, timeout=3600):
    p = subprocess.run(cmd, shell=True, cwd=cwd, capture_output=True, text=True, timeout=timeout)
    return p.returncode, p.stdout + p.stderr

def main():
    name, prop, src, k, demo_rel, pkg = sys.argv[1:7]
    checks = [prop]
    thorough = False
    rest = sys.argv[7:]
    while rest:
        if rest[0] == "--checks":
            checks = rest[1].split(","); rest = rest[2:]
        elif rest[0] == "--thorough":
            thorough = True; rest = rest[1:]
        else:
            raise SystemExit("bad arg " + rest[0])
    patch = os.path.join(src, "change%s.diff" % k)
    demo = os.path.join(src, "demo%s.rs" % k)
    wt = "/tmp/wtv-" + name
    env = "CARGO_TARGET_DIR=/tmp/wtv-target CARGO_NET_OFFLINE=true "
    meta = {"name": name, "property": prop, "ran": []}
    sh("git -C /repo worktree remove --force %s" % wt)
    rc, out = sh("git -C /repo worktree add --detach %s HEAD" % wt)
    assert rc == 0, out
    shutil.copy("/repo/Cargo.lock", wt)
    try:
        rc, out = sh("git apply %s || git apply --3way %s" % (patch, patch), cwd=wt)
        if rc != 0:
            rc, out = sh("patch -p1 < %s" % patch, cwd=wt)
        assert rc == 0, "patch does not apply: " + out
        rc, out = sh(env + "cargo test --workspace --no-fail-fast --offline 2>&1", cwd=wt)
        passed = sum(int(l.split("ok. ")[1].split(" passed")[0]) for l in out.splitlines() if l.startswith("test result: ok."))
        failed = [l for l in out.splitlines() if l.startswith("test result: FAILED") or "error[" in l or "error: could not compile" in l]
        meta["suite_with_change"] = {"exit": rc, "passed_incl_doctests": passed, "failures": failed[:5]}
        meta["ran"].append("cargo test --workspace --no-fail-fast --offline (with change): exit %d, %d passed" % (rc, passed))
        assert rc == 0 and not failed, "existing suite does not pass with the change:\n" + out[-2000:]
        os.makedirs(os.path.join(wt, demo_rel), exist_ok=True)
        dname = "seed_demo_%s" % name.replace("-", "_").lower()
        shutil.copy(demo, os.path.join(wt, demo_rel, dname + ".rs"))
        cmd = env + "cargo test --offline -p %s --test %s 2>&1" % (pkg, dname)
        rc1, out1 = sh(cmd, cwd=wt)
        meta["demo_with_change"] = {"exit": rc1, "tail": out1.splitlines()[-6:]}
        meta["ran"].append("%s (with change): exit %d" % (cmd.replace(env, ""), rc1))
        # revert only tracked files; keep the demo
        sh("git reset -q && git checkout -- .", cwd=wt)
        rc2, out2 = sh(cmd, cwd=wt)
        meta["demo_without_change"] = {"exit": rc2, "tail": out2.splitlines()[-4:]}
        meta["ran"].append("%s (without change): exit %d" % (cmd.replace(env, ""), rc2))
        assert rc1 != 0, "demo does not fail with the change"
        assert rc2 == 0, "demo does not pass without the change:\n" + out2[-1500:]
    finally:
        sh("git -C /repo worktree remove --force %s" % wt)
    # our checks against it, on /repo
    rc, out = sh("git -C /repo status --porcelain --untracked-files=no")
    assert out.strip() == "", "/repo has uncommitted changes"
    rc, out = sh("git -C /repo apply %s || git -C /repo apply --3way %s" % (patch, patch))
    assert rc == 0, out
    results = {}
    try:
        for c in checks:
            t0 = time.time()
            rc, out = sh("./check %s --tier quick" % c, cwd="/verif")
            results[c] = {"quick_exit": rc, "quick_s": round(time.time() - t0, 1), "quick_lines": [l for l in out.splitlines() if l.startswith(("VIOLATION", "  signature", "MACHINERY"))][:8]}
            if rc == 0 or thorough:
                t0 = time.time()
                rc, out = sh("./check %s --tier thorough" % c, cwd="/verif")
                results[c].update({"thorough_exit": rc, "thorough_s": round(time.time() - t0, 1), "thorough_lines": [l for l in out.splitlines() if l.startswith(("VIOLATION", "  signature", "MACHINERY"))][:8]})
    finally:
        sh("git -C /repo reset -q && git -C /repo checkout -- .")
        rc, out = sh("git -C /repo status --porcelain --untracked-files=no")
        assert out.strip() == "", "/repo not clean after revert: " + out
    sh("rm -rf /verif/replays/*")
    meta["checks"] = results
    meta["detected_by"] = [c for c, r in results.items() if r.get("quick_exit") == 1 or r.get("thorough_exit") == 1]
    meta["detected_quick"] = [c for c, r in results.items() if r.get("quick_exit") == 1]
    d = os.path.join("/verif/seeded", name)
    os.makedirs(d, exist_ok=True)
    shutil.copy(patch, os.path.join(d, "patch.diff"))
    shutil.copy(demo, os.path.join(d, "demo.rs"))
    meta["demo_location"] = "%s/ (package %s)" % (demo_rel, pkg)
    mp = os.path.join(d, "meta.json")
    old = json.load(open(mp)) if os.path.exists(mp) else {}
    for k2 in ("breaks", "needs_to_manifest", "source"):
        if k2 in old:
            meta[k2] = old[k2]
    json.dump(meta, open(mp, "w"), indent=1)
    print(name, "detected_by", meta["detected_by"], "quick", meta["detected_quick"])
    for c, r in results.items():
        print(" ", c, r)

main()
