#!/usr/bin/env python3
"""Validate MANIFEST.json and evidence/*.json against the schemas in /root/.vp (run with python3-vt)."""
import json, sys, glob, jsonschema
ok = True
def val(path, schema):
    global ok
    try:
        jsonschema.validate(json.load(open(path)), json.load(open(schema)))
        print("valid  ", path)
    except Exception as e:
        ok = False
        print("INVALID", path, str(e)[:300])
val('/verif/MANIFEST.json', '/root/.vp/MANIFEST.schema.json') if glob.glob('/verif/MANIFEST.json') else None
for p in sorted(glob.glob('/verif/evidence/*.json')):
    val(p, '/root/.vp/EVIDENCE.schema.json')
sys.exit(0 if ok else 1)
