#!/usr/bin/env python3
"""Validate MANIFEST.json and evidence/*.json against the schemas in /root/.vp (run with python3-vt)."""
import json, sys, glob, jsonschema
ok = True
def val(path, schema):
    global ok
    try:
        jsonschema.validate(json.load(open(path)), json.load(open(schema)))
        print("valid  ", path)
    except Exception as e:
        ok = False
        print("INVALID", path, str(e)[:300])
val('/verif/MANIFEST.json', '/root/.vp/MANIFEST.schema.json') if glob.glob('/verif/MANIFEST.json') else None
for p in sorted(glob.glob('/verif/evidence/*.json')):
    val(p, '/root/.vp/EVIDENCE.schema.json')
# on the reference tree every coverage guard must hold, every run must be exhaustive and free of machinery errors
for p in sorted(glob.glob('/verif/evidence/*.json')):
    cov = json.load(open(p)).get('coverage', {})
    bad = [g['name'] for g in cov.get('guards', []) if not g.get('ok')]
    if bad or not cov.get('exhaustive', True) or cov.get('machinery_errors') or cov.get('notes'):
        ok = False
        print("EVIDENCE NOT CLEAN", p, "unmet guards:", bad, "exhaustive:", cov.get('exhaustive'), cov.get('machinery_errors'), cov.get('notes'))
sys.exit(0 if ok else 1)
