#!/usr/bin/env python3
"""Seventh wave of seeded changes: confirm one agent delivery and run the property's own quick check against it.

usage: wave7.py confirm <ID>      (parallel-safe: works in the agent's own scratch worktree /tmp/w7/wt-<ID>)
       wave7.py check <ID> [--also C04,C13]   (serial: applies the patch to /repo, runs ./check, reverts)
Delivery directory: /tmp/w7/out-<ID>/{change1.diff,demo1.rs,notes.json}; result: /verif/seeded/<ID>-w7-1/.
"""
import json, os, shutil, subprocess, sys, time

def sh(cmd, cwd=None, timeout=3000):
    p = subprocess.run(cmd, shell=True, cwd=cwd, capture_output=True, text=True, timeout=timeout)
    return p.returncode, p.stdout + p.stderr

def confirm(pid):
    out_dir = "/tmp/w7/out-" + pid
    wt = "/tmp/w7/wt-" + pid
    notes = json.load(open(os.path.join(out_dir, "notes.json")))
    patch = os.path.join(out_dir, "change1.diff")
    demo = os.path.join(out_dir, "demo1.rs")
    env = "CARGO_TARGET_DIR=/tmp/w7/tgt-%s CARGO_NET_OFFLINE=true " % pid
    name = "%s-w7-1" % pid
    meta = {"name": name, "property": pid, "ran": [], "breaks": notes.get("breaks", ""),
            "needs_to_manifest": notes.get("needs", ""), "source": "seventh wave (fresh sub-agent, property text only)"}
    sh("git reset -q --hard HEAD && git clean -fdq", cwd=wt)
    shutil.copy("/repo/Cargo.lock", wt)
    rc, out = sh("git apply %s" % patch, cwd=wt)
    assert rc == 0, "patch does not apply: " + out
    rc, out = sh(env + "cargo test --workspace --no-fail-fast --offline 2>&1", cwd=wt)
    passed = sum(int(l.split("ok. ")[1].split(" passed")[0]) for l in out.splitlines() if l.startswith("test result: ok."))
    failed = [l for l in out.splitlines() if l.startswith("test result: FAILED") or "error[" in l or "error: could not compile" in l]
    meta["suite_with_change"] = {"exit": rc, "passed_incl_doctests": passed, "failures": failed[:5]}
    meta["ran"].append("cargo test --workspace --no-fail-fast --offline (with change): exit %d, %d passed" % (rc, passed))
    assert rc == 0 and not failed, "existing suite does not pass with the change:\n" + out[-1500:]
    demo_rel, pkg = notes["demo_rel_dir"].strip("/"), notes["pkg"]
    os.makedirs(os.path.join(wt, demo_rel), exist_ok=True)
    dname = "seed_demo_%s" % name.replace("-", "_").lower()
    shutil.copy(demo, os.path.join(wt, demo_rel, dname + ".rs"))
    cmd = env + "cargo test --offline -p %s --test %s 2>&1" % (pkg, dname)
    rc1, out1 = sh(cmd, cwd=wt)
    meta["demo_with_change"] = {"exit": rc1, "tail": out1.splitlines()[-6:]}
    meta["ran"].append("%s (with change): exit %d" % (cmd.replace(env, ""), rc1))
    sh("git reset -q && git checkout -- .", cwd=wt)
    rc2, out2 = sh(cmd, cwd=wt)
    meta["demo_without_change"] = {"exit": rc2, "tail": out2.splitlines()[-4:]}
    meta["ran"].append("%s (without change): exit %d" % (cmd.replace(env, ""), rc2))
    assert rc1 != 0 and "test result: FAILED" in out1, "demo does not fail with the change:\n" + out1[-800:]
    assert rc2 == 0, "demo does not pass without the change:\n" + out2[-1500:]
    meta["demo_location"] = "%s/ (package %s)" % (demo_rel, pkg)
    d = os.path.join("/verif/seeded", name)
    os.makedirs(d, exist_ok=True)
    shutil.copy(patch, os.path.join(d, "patch.diff"))
    shutil.copy(demo, os.path.join(d, "demo.rs"))
    json.dump(meta, open(os.path.join(d, "meta.json"), "w"), indent=1)
    print(name, "confirmed")

def check(pid, also):
    name = "%s-w7-1" % pid
    d = os.path.join("/verif/seeded", name)
    meta = json.load(open(os.path.join(d, "meta.json")))
    patch = os.path.join(d, "patch.diff")
    rc, out = sh("git -C /repo status --porcelain --untracked-files=no")
    assert out.strip() == "", "/repo has uncommitted changes"
    rc, out = sh("git -C /repo apply %s" % patch)
    assert rc == 0, out
    results = meta.get("checks", {})
    try:
        for c in [pid] + also:
            t0 = time.time()
            rc, out = sh("./check %s --tier quick" % c, cwd="/verif")
            results[c] = {"quick_exit": rc, "quick_s": round(time.time() - t0, 1),
                          "quick_lines": [l for l in out.splitlines() if l.startswith(("VIOLATION", "  signature", "MACHINERY", "NOTE"))][:8]}
    finally:
        sh("git -C /repo reset -q && git -C /repo checkout -- .")
        rc, out = sh("git -C /repo status --porcelain --untracked-files=no")
        assert out.strip() == "", "/repo not clean after revert: " + out
    sh("rm -rf /verif/replays/*")
    meta["checks"] = results
    meta["detected_by"] = [c for c, r in results.items() if r.get("quick_exit") == 1]
    meta["detected_quick"] = meta["detected_by"]
    json.dump(meta, open(os.path.join(d, "meta.json"), "w"), indent=1)
    print(name, "detected_quick", meta["detected_quick"])
    for c, r in results.items():
        print(" ", c, r)

if __name__ == "__main__":
    if sys.argv[1] == "confirm":
        confirm(sys.argv[2])
    else:
        also = sys.argv[4].split(",") if len(sys.argv) > 4 and sys.argv[3] == "--also" else []
        check(sys.argv[2], also)
