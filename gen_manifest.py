#!/usr/bin/env python3
"""Generates MANIFEST.json from the table below (single source of truth for the per-property texts)."""
import json, subprocess, os
HERE = os.path.dirname(os.path.abspath(__file__))

E1 = "bounded-exhaustive input enumeration of the real code against an independent reference model"
E2 = "explicit-state breadth-first search over the real implementation's hashable state, to a fixed point under stated bounds"
E3 = "stateless exhaustive reply/answer-tree enumeration of the real code against scripted environments"

CHECKS = {
 "C01": dict(engine="E1 enum", sec="4/C01", technique=E1,
   text="Every frame of the enumerated product (all 65536 addresses x all 256 types x {empty, 1-byte} data; every length 1..255 x every position x every byte value; boundary lengths) is encoded by the real encoder, compared byte-for-byte with an arithmetic reference encoder, checked for zero-sum/upper-case/CRLF shape, decoded from both encodings and compared with the original; Data::try_new is tried for every length 0..300 and beyond. Exhaustive over that stated domain, which is what a round-trip claim over 'all frames' needs because the codec does not branch on data values.",
   note="Trusts the 25-line arithmetic reference encoder; joint variation of several data bytes only through two backgrounds."),
}

IMPLEMENTED = set(CHECKS)
ALL = ["C%02d" % i for i in range(1, 21)]

def main():
    commits = subprocess.run(["git", "-C", "/repo", "log", "--format=%H %s"], capture_output=True, text=True).stdout.splitlines()
    hook_commits = [c.split()[0] for c in commits if c.split(" ", 1)[1].startswith("verif hook")]
    man = {
      "version": 1,
      "setup_cmd": "cd /verif/harness && CARGO_NET_OFFLINE=true CARGO_TARGET_DIR=/verif/target cargo build --release --offline",
      "hooks": {
        "guard": "cargo feature `verif-hooks` of crate flipdot-serial (off by default)",
        "enable": "the harness crate /verif/harness/fdv depends on /repo/libs/serial by path with features=[\"verif-hooks\"]; every ./check rebuilds it from /repo's working tree",
        "baseline_off_cmd": "cd /repo && cargo test --workspace --no-fail-fast --offline",
        "source_commits": hook_commits,
        "add_only": True,
      },
      "engines": [
        {"name": "E1 enum", "path": "harness/fdv/src/props", "serves_properties": ["C01","C02","C03","C04","C05","C07","C19"], "kind_free_text": E1},
        {"name": "E2 bfs", "path": "harness/fdv/src/bfs.rs", "serves_properties": ["C06","C08","C12","C13","C14","C17"], "kind_free_text": E2},
        {"name": "E3 tree", "path": "harness/fdv/src/tree.rs", "serves_properties": ["C09","C10","C11","C15","C16","C18","C20"], "kind_free_text": E3},
      ],
      "checks": [],
      "notes": "All checks: ./check <ID> [--tier quick|thorough]; exit 0 held / 1 VIOLATION / 2 machinery. Known findings: /verif/known_findings.txt. Design: /verif/DESIGN.md.",
      "not_applicable": [],
    }
    for pid in ALL:
        if pid in CHECKS:
            c = CHECKS[pid]
            man["checks"].append({
              "property_id": pid,
              "quick_cmd": "./check %s --tier quick" % pid,
              "thorough_cmd": "./check %s --tier thorough" % pid,
              "evidence_file": "/verif/evidence/%s.json" % pid,
              "replay_cmd_template": "./check %s --replay {path}" % pid,
              "engine": c["engine"],
              "level_claimed": {"category": "model_checking", "text": c["text"], "design_ref": "DESIGN.md §" + c["sec"]},
              "level_note": c["note"],
              "technique": c["technique"],
            })
        else:
            man["not_applicable"].append({"property_id": pid, "reason": "check not built yet in this round (design in DESIGN.md §4); not claimed until its machinery is committed"})
    json.dump(man, open(os.path.join(HERE, "MANIFEST.json"), "w"), indent=1)
    print("wrote MANIFEST.json with", len(man["checks"]), "checks;", len(man["not_applicable"]), "not claimed")

main()
