#!/usr/bin/env python3
"""Generates MANIFEST.json from the table below (single source of truth for the per-property texts)."""
import json, subprocess, os
HERE = os.path.dirname(os.path.abspath(__file__))

E1 = "bounded-exhaustive input enumeration of the real code against an independent reference model"
E2 = "explicit-state breadth-first search over the real implementation's hashable state, to a fixed point under stated bounds"
E3 = "stateless exhaustive reply/answer-tree enumeration of the real code against scripted environments"

CHECKS = {
 "C01": dict(engine="E1 enum", sec="4/C01", technique=E1,
   text="Every frame of the enumerated product (all 65536 addresses x all 256 types x {empty, 1-byte} data; every length 1..255 x every position x every byte value; boundary lengths) is encoded by the real encoder, compared byte-for-byte with an arithmetic reference encoder, checked for zero-sum/upper-case/CRLF shape, decoded from both encodings and compared with the original; Data::try_new is tried for every length 0..300 and beyond; every infallible conversion into Data that exists on the tree (probed for static arrays of 5..65536 bytes, slices, Vec, Box, Cow) must refuse or never yield more than 255 bytes; all ordered pairs and triples of frames built to collide on length/address/type/byte sum are encoded and decoded in sequence on a fresh thread (no state may carry over between calls). Exhaustive over that stated domain, which is what a round-trip claim over 'all frames' needs because the codec does not branch on data values.",
   note="Trusts the 25-line arithmetic reference encoder; joint variation of several data bytes only through two backgrounds."),
 "C02": dict(engine="E1 enum", sec="4/C02", technique="exhaustive single-fault enumeration over the wire string of every base frame, decided on the real decoder",
   text="For every base frame (10 addresses x 10 types x data blocks of 0..3, 16 and 64/128/255 bytes, plus constructed frames that embed a complete inner frame) and both encodings, EVERY single substitution (all 255 other byte values at every position), deletion, duplication, unequal adjacent transposition and proper prefix, and every wrong length-field and wrong checksum value, is decoded by the real decoder; the result must be an error or exactly the original frame; prefixes, deletions and data-field substitutions are also decoded after earlier decodes on the same thread (the frame itself and longer frames; a different valid frame with the same length, header and checksum). The fault space of one frame is finite, so it is enumerated completely rather than sampled.",
   note="Base-frame set is finite and listed in the evidence; soundness of 'Ok(original)' exceptions argued in DESIGN.md."),
 "C03": dict(engine="E1 enum", sec="4/C03", technique="bounded-exhaustive string enumeration (all strings up to length L; all strings within edit distance k of valid bases) compared with an independent parser",
   text="All strings over the 28-symbol structural alphabet up to length 5 (quick) / 6 (thorough), every string within edit distance 1-2 (3 on the shortest bases) of ~75 valid and near-valid bases, every position x all 256 byte values on long bases, frame-shaped strings whose digit slots hold multi-byte UTF-8 characters, and all pairs/triples of representative strings decoded in sequence on a fresh thread, are decoded by the real decoder and by a hand-written index-arithmetic reference parser; class, reported fields, accepted frame and re-encoding must agree and nothing may panic.",
   note="Trusts the 45-line reference parser; acceptance needs >= 11 bytes so it is reached through the neighbourhoods, not through the short-string sweep."),
 "C04": dict(engine="E1 enum", sec="4/C04", technique=E1,
   text="All 256 types x all 256 first data bytes x lengths {0,1,2,3,16,255} x 5 addresses x tail variants, and all 65536 addresses for each of the 30 recognised codes, type-0 frames and near-miss codes, go Frame -> Message -> Frame through the real conversions and are compared with a literal copy of the protocol table.",
   note="Trusts the literal table in refmodel.rs (STATES, OPS, ref_classify)."),
 "C05": dict(engine="E1 enum", sec="4/C05", technique=E1,
   text="Every constructible specific message of the enumerated domain (2.3 M: all offsets/counts/addresses, all 13 states, all 6 operations, SendData of every length 0..=255) is taken message -> frame -> wire bytes -> frame -> message with both encodings and compared; injectivity is decided by sorting all wire encodings and re-checking equal fingerprints on the real bytes; call sequences of colliding messages run on a fresh thread.",
   note="Data contents are fill patterns; the conversion does not branch on data values beyond the first byte of 1-byte frames (covered by C04)."),
}

CHECKS.update({
 "C17": dict(engine="E2 bfs (differential)", sec="4/C17", technique=E2 + ", differential: the same actions drive the full serial path and a direct bus in lock-step; plus exhaustive fault injection at the bridge",
   text="The real Sign -> SerialSignBus -> in-process byte pipe -> Odk -> VirtualSignBus path and an identical VirtualSignBus driven directly are explored together, breadth-first to a fixed point: at controller level (configure, configure_if_needed, send_pages of 4 lists, show, load_next, shut_down, reconfigure as another type, an absent address; 11 types x both flip styles) and at message level (R2 alphabet plus 0/1/15-byte chunks plus eight unknown frames that look like known one-byte messages); all ordered pairs and triples of the controller operations are also run through ONE wire (one serial bus, one bridge) against the direct bus. After every step success/failure, replies and all signs' state/type/pages must agree, no byte may be left on the wire, and every bridge call must have forwarded exactly the decoding of the line it read (the implementation's own codec, taken as given) and written back a frame iff the bus replied. Every reply/malformed line x {reply, silence} x {read error at every call index, write error, bus error} is injected at a bridge on a scripted port, and every line is followed by a valid second line through the same bridge.",
   note="Single-threaded duplex (the bridge runs inside the controller's port write); pauses skipped through the seam; a refused request is 'no reply' directly and a read failure on the wire."),

 "C08": dict(engine="E2 bfs", sec="4/C08", technique=E2 + "; the action alphabet is the union of raw bus messages (which generate every prior state) and whole operations of the real controller",
   text="One explicit-state search per (sign type, flip style, address) over the real VirtualSignBus: raw messages (control messages, counts, the type's own / another type's / an unsupported / an invalid configuration block, data chunks at offsets 0/16/32) drive the sign into every reachable prior state (all 13 protocol states, half-finished configurations, abandoned transfers with any buffered length up to a page + 16 bytes, previous configuration as another or unknown type, ready-to-reset); from every such state each operation of the real Sign (configure, configure_if_needed, send_pages of 4 lists, show, load_next, shut_down) is executed on the real bus and judged by a promise model that states only what the property states; operation chaining falls out of the search.",
   note="Modelling assumption on earlier traffic's configuration blocks stated in the evidence; page contents are 4 patterns; thorough adds 6 addresses, richer chunks and a bystander sign."),

 "C09": dict(engine="E3 tree + responding bus", sec="4/C09", technique="exhaustive enumeration of (sign type, address, page list, retry schedule, unacknowledged attempt) against the real controller, judged by a trace predicate",
   text="Every combination of the 11 sign types x 4 addresses x retry schedules {S,FS,FFS,FFF} x {configure, send_pages over a table of page lists: 0..16 pages, every page size 16k bytes for k=1..24 (64 thorough) and 255,256,257,4095,4096 (the 16-bit offset limit), mixed sizes, a list of exactly 65535 chunks} x {every attempt acknowledged, or the n-th receive request answered by silence / another operation's ack / a foreign ack / a report / silence followed by an in-progress report to a query, or the j-th data chunk answered by a stray report} is run on the real Sign against a recording bus; the recorded conversation is judged by a trace predicate over the transfers that are made (an unacknowledged request is never followed by data or a count before the next request; per acknowledged attempt: per-item offsets 0,16,32.., chunks <= 16 bytes, concatenation == item, count == chunks since the request, query after count). How often the controller asks again or retries is left to C10/C11.",
   note="Transfers above 65535 chunks or pages above 64 KiB are outside the property (16-bit fields); contents are position-identifying fills."),
 "C10": dict(engine="E3 tree", sec="4/C10", technique="stateless exhaustive reply-tree enumeration (every reply of a 47-symbol alphabet at every step, by prefix re-execution of the real operation) compared with a reference controller automaton",
   text="The complete reply tree of configure, configure_if_needed, send_pages([],[p],[p,q]), show_loaded_page, load_next_page and shut_down (send_pages also with a list of 64+ chunks), and of the same operations performed as the SECOND call on one Sign object after each of five prelude calls (so that state carried from call to call shows), is enumerated on the real Sign: at every step every one of 47 replies (13 states x own/foreign, 6 acks x own/foreign, none, goodbye, unknown frame, 6 kinds of bus failure) is offered until the operation returns (3.5 M leaves quick; polling loops cut at a stated horizon, cut prefixes still checked). Every leaf's exact message list and outcome class is compared with a reference automaton of the documented protocol, and a bus error must be the injected one. One documented don't-care: an unexpected answer to send_pages' closing query may yield 'manual' or a protocol error.",
   note="Trusts the ~120-line reference automaton; one foreign address and one unknown frame per run; polling horizon 9/12."),
 "C11": dict(engine="E3 tree", sec="4/C11", technique="the same exhaustive reply-tree enumeration as C10, judged by conversation invariants I1-I5 instead of a reference conversation",
   text="On every leaf of the same complete reply trees: I1 success only if the report concluding the final transfer is the own-address 'received' state; I2 nothing is sent after a bus error, a reply to a no-reply message, or a non-matching answer to a request, and the result is the bus error / a protocol error; I3 at most 3 transfer attempts, each retry directly preceded by the own-address 'failed' report; I4 every addressed message carries the own address; I5 (metamorphic) a foreign-address reply is handled like an unrelated frame (replacing them changes neither the message list nor the outcome class) or rejected on the spot with a protocol error.",
   note="I2 deliberately covers only the context-free strict points; admissibility of hello/query replies is C10's business."),

 "C06": dict(engine="E1 enum + E2 bfs", sec="4/C06", technique="bounded-exhaustive enumeration of single operations plus explicit-state closure over all operation sequences on tiny pages, against a Vec<bool> grid model",
   text="For every size of an exhaustive box (incl. 0 and heights not a multiple of 8), the real sign sizes, 33x33 and tall/wide pages beyond 2^8 and 2^11 rows or columns, and 5 kinds of start page (new; borrowed bytes with non-standard header/padding and 00/FF/fill data; owned bytes): every in-bounds set/clear, set_all true/false and every listed out-of-bounds coordinate (incl. y inside the column's last byte) is executed on the real Page and judged on exactly the observables the statement lists. All sequences of operations are covered by a breadth-first closure to the fixed point (all 2^n pixel states) on tiny pages in lock-step with a boolean grid.",
   note="Header bytes 1..3 and unused high bits are recorded, not judged; closure only on pages up to 18 pixels."),
 "C07": dict(engine="E1 enum", sec="4/C07", technique=E1,
   text="For every (id,width,height) of the boxes and the real/large sizes: Page::new bytes against the layout formula; every pixel set (twice) / read / cleared (twice) on a blank page, and cleared / set again on a page with every pixel on, must change exactly bit y%8 of byte 4+x*ceil(h/8)+y/8 (so the pixel-to-bit map is checked injective pixel by pixel, against both backgrounds); sizes include heights just above 2^24 and 2^25; from_bytes for every candidate length around the padded size (owned and borrowed) and over the page's own bytes; the pixel map is also checked on pages over borrowed bytes.",
   note="Trusts the statement's formula as coded in refmodel.rs; large sizes visit boundary pixels only in the quick tier."),
 "C15": dict(engine="E3 tree + E4 devices", sec="4/C15", technique="exhaustive enumeration of environment answer scripts (fragment sizes, interrupts, zero/short transfers, hard errors at every call index) against the real Frame::read/write",
   text="The real Frame::read and Frame::write run against a scripted stream whose every call is answered from a finite script: every composition of short streams (incl. lines with non-UTF-8 bytes) into delivery sizes, every subset of interrupted calls among the first m calls, a hard error of 4 kinds and a premature Ok(0) at every call index, <=2 interrupts combined with a terminal fault anywhere on longer streams; likewise for the sink. After every read the stream position must be exactly the end of the first line and the result must equal the decoding of that line (the implementation's own Frame::from_bytes on exactly the consumed bytes: the codec is taken as given, C01-C03 decide it; a stream that ends before any line feed may also give an I/O error); writes must deliver exactly the frame's encoding (to_bytes_with_newline) or fail with an I/O error and stop; after a zero-byte accept either is acceptable.",
   note="Streams are a fixed list of 14 (1-3 frames, invalid lines, trailing bytes, 255-byte frame); scripts enumerated exhaustively within the stated lengths."),
 "C16": dict(engine="E3 tree + E4 devices", sec="4/C16", technique="exhaustive enumeration of (message, reply line, fault position) against the real SerialSignBus on a scripted port",
   text="Every message of a 326-message list (all kinds, every data length 0..=255, boundary parameters, unknown frames that share the type byte of reply-expecting messages) x every reply line (all 13 reports, 6 acks, other kinds incl. 254/255-byte lines, 8 malformed shapes, empty, timeout) followed by a sentinel line, plus a fault at every write and read call index, plus failure-then-clean sequences on the same bus, is sent through one real SerialSignBus; bytes written (== Frame::from(message).to_bytes_with_newline()), read calls, input position and the returned value (== Frame::from_bytes + Message::from of the line; an undecodable line must give an error) are judged; the codec itself is taken as given (C01-C05 decide it).",
   note="Needs the sleep seam only to avoid real waiting; reply alphabet finite and listed."),
 "C18": dict(engine="E3 tree + real clock", sec="4/C18", technique="exhaustive enumeration of ordered message pairs x reply kinds on a virtual clock; candidates confirmed on the real clock; real-clock pass over all kinds",
   text="Every ordered pair of 47 message kinds x every combination of 25 reply kinds (incl. echoed controller frames) for both messages is run through one real SerialSignBus with pauses captured by the sleep seam; the event log must show >= 30 ms of pause between a data chunk's last port write and the next message's first port write, >= 100 ms between reading an in-progress report and returning, and < 30 ms otherwise. A candidate violation is reported only if a real-clock measurement agrees (so a bypassed seam cannot raise an alarm); a real-clock pass measures every kind once (lower bounds; minimum over 5 repetitions for unpaced exchanges), and a slow-port pass repeats the lower bounds through a port whose every read/write call blocks for 4 ms of real time, measured from the end of the last write/read.",
   note="Time itself is measured, not enumerated; trusts the two-line seam, cross-checked by the real-clock pass."),
 "C19": dict(engine="E1 enum", sec="4/C19", technique=E1,
   text="All 11 types (block fields vs dimensions; a real VirtualSign configured with the block stores exactly a page of the type's size, and whatever it holds after a page of a neighbouring size has the type's dimensions), all 121 ordered pairs of types (failed attempt with A, retry with B), all 65536 (family,id) pairs with the other 14 bytes varied, every length 0..=600 and lengths = 16 mod 256 / mod 65536, and every single-byte variation of every real block are decoded and compared with a literal table.",
   note="Trusts the literal table SIGN_TYPES."),
 "C20": dict(engine="E3 tree + E4 devices", sec="4/C20", technique="exhaustive product of prior port settings x constructors x a fault at each configuration call, on a scripted SerialDevice",
   text="14 prior baud values x 4 char sizes x 3 parities x 2 stop bits x 3 flow controls x 3 prior timeouts x {SerialSignBus::try_new, Odk::try_new, configure_port with 7 timeouts incl. sub-millisecond ones} x {no fault, or each of 4 configuration calls failing with 5 error kinds (incl. Interrupted and WouldBlock), on every occurrence or only the 1st/2nd/3rd} = 2.29 M constructions, visited in a stride permutation with the budget polled, on a scripted device that records every call; resulting line settings, timeout (the caller's value for configure_port; some non-zero timeout for the constructors) and error propagation are judged: an object is returned only fully configured, a call that fails every time surfaces as that error, after a one-off failure either the error or a fully configured object.",
   note="Trusts serial-core's blanket reconfigure; the settings type is the harness's own so every call can be made to fail."),

 "C12": dict(engine="E2 bfs", sec="4/C12", technique=E2 + "; plus directed exhaustive sweeps of configuration fields and 70000-step counter chains",
   text="Breadth-first search over the real VirtualSign (state key = the real struct) to a fixed point under stated size bounds, offering every message of alphabets R1 (every chunk length 0..=255 at offset 0 and 16, all control messages for own and foreign address, counts below/equal/above, valid/invalid/zero/overflowing configuration blocks), R2 (coloured chunks, two page sizes) and R3 (each of the 11 real sign types) in every reachable state, for both flip styles, plus a two-sign bus; plus every configuration block of a 230k-block field sweep and three 70000-repetition counter chains. Oracle: no transition unwinds and a count message ends a transfer in received/failed. All reachable states under the bounds are covered, which is what 'never panics whatever is sent' needs.",
   note="Bounds on buffered bytes / counted chunks / stored pages per run are in the evidence; data values are uniform fills and three colours; shadow automaton used only for bounds."),
 "C13": dict(engine="E2 bfs", sec="4/C13", technique=E2 + ", in lock-step with a reference automaton of the documented sign-side machine",
   text="The same state graphs as C12 (R1, R2, all 11 R3 types, both flip styles) are explored to a fixed point over pairs (real sign, reference automaton); on every transition reply, state() and sign_type() must equal the automaton's and every stored page must have the configured size; pages() must equal the automaton's exactly outside pixel transfers, after resets and when a well-formed transfer is closed by the matching count; a malformed transfer that counts every chunk and reports 'received' must hold consecutive pieces of the arrived byte stream. Explicit don't-cares (timing of page visibility inside a transfer, outcome and leftovers of malformed or failed transfers, what survives a failed configuration attempt) keep the check from demanding more than the statement.",
   note="Trusts refsign.rs (~200 lines, written from the documentation); documented don't-cares listed in DESIGN.md 4/C13; counters >= 65536 out of bounds."),
 "C14": dict(engine="E2 bfs", sec="4/C14", technique=E2 + " of the real VirtualSignBus, compared step by step with the same real signs run in isolation",
   text="Breadth-first search over the real VirtualSignBus with 1..4 signs (mixed flip styles, both insertion orders, an absent address) to a fixed point under per-sign bounds. Each sign also exists as an isolated real VirtualSign that is fed only the messages that concern it (addressed to it; unaddressed data/count only while it is receiving). After every transition the bus reply must equal the addressed isolated sign's reply and each sign's state/type/pages must equal its isolated twin, so interference, wrong-sign replies, replies for absent addresses and effects of unaddressed messages on non-receiving signs are all decided, including their delayed consequences. A directed sweep delivers each of the 10 addressed message kinds to every one of the 65534 absent addresses from every pair of protocol states of a two-sign bus (72 M deliveries): no reply, no change of any sign's state/type/pages, and when only private fields differ the two buses must behave identically under 62 continuations.",
   note="n>=3 use a reduced alphabet and bounds; refsign.rs only for size bounds; a bus panic is C12's business."),
})
IMPLEMENTED = set(CHECKS)
ALL = ["C%02d" % i for i in range(1, 21)]

def main():
    commits = subprocess.run(["git", "-C", "/repo", "log", "--format=%H %s"], capture_output=True, text=True).stdout.splitlines()
    hook_commits = [c.split()[0] for c in commits if c.split(" ", 1)[1].startswith("verif hook")]
    man = {
      "version": 1,
      "setup_cmd": "cd /verif/harness && CARGO_NET_OFFLINE=true CARGO_TARGET_DIR=/verif/target cargo build --release --offline",
      "hooks": {
        "guard": "cargo feature `verif-hooks` of crate flipdot-serial (off by default)",
        "enable": "the harness crate /verif/harness/fdv depends on /repo/libs/serial by path with features=[\"verif-hooks\"]; every ./check rebuilds it from /repo's working tree",
        "baseline_off_cmd": "cd /repo && cargo test --workspace --no-fail-fast --offline",
        "source_commits": hook_commits,
        "add_only": True,
      },
      "engines": [
        {"name": "E1 enum", "path": "harness/fdv/src/props", "serves_properties": ["C01","C02","C03","C04","C05","C07","C19"], "kind_free_text": E1},
        {"name": "E2 bfs", "path": "harness/fdv/src/bfs.rs", "serves_properties": ["C06","C08","C12","C13","C14","C17"], "kind_free_text": E2},
        {"name": "E3 tree", "path": "harness/fdv/src/tree.rs", "serves_properties": ["C09","C10","C11","C15","C16","C18","C20"], "kind_free_text": E3},
      ],
      "checks": [],
      "notes": "All checks: ./check <ID> [--tier quick|thorough]; exit 0 held / 1 VIOLATION / 2 machinery. Known findings: /verif/known_findings.txt. Design: /verif/DESIGN.md.",
      "not_applicable": [],
    }
    for pid in ALL:
        if pid in CHECKS:
            c = CHECKS[pid]
            man["checks"].append({
              "property_id": pid,
              "quick_cmd": "./check %s --tier quick" % pid,
              "thorough_cmd": "./check %s --tier thorough" % pid,
              "evidence_file": "/verif/evidence/%s.json" % pid,
              "replay_cmd_template": "./check %s --replay {path}" % pid,
              "engine": c["engine"],
              "level_claimed": {"category": "model_checking", "text": c["text"], "design_ref": "DESIGN.md §" + c["sec"]},
              "level_note": c["note"],
              "technique": c["technique"],
            })
        else:
            man["not_applicable"].append({"property_id": pid, "reason": "check not built yet in this round (design in DESIGN.md §4); not claimed until its machinery is committed"})
    json.dump(man, open(os.path.join(HERE, "MANIFEST.json"), "w"), indent=1)
    print("wrote MANIFEST.json with", len(man["checks"]), "checks;", len(man["not_applicable"]), "not claimed")

main()
