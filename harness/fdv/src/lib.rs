//! fdv — bounded-exhaustive exploration (model checking) harness for alusch/flipdot.
pub mod props;
pub mod refmodel;
pub mod report;
pub mod util;
