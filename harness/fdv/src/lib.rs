//! fdv — bounded-exhaustive exploration (model checking) harness for alusch/flipdot.
pub mod bfs;
pub mod ctlsys;
pub mod devices;
pub mod props;
pub mod refmodel;
pub mod refsign;
pub mod report;
pub mod signsys;
pub mod util;
pub mod xcheck;
