//! E5 — independent second engine: the same System is explored by stateright's BFS checker and the number of
//! unique states must equal the home-grown explorer's. A mismatch is a machinery error, never a verdict.

use std::fmt::Debug;
use std::hash::Hash;

use stateright::{Checker, Model, Property};

use crate::bfs::System;

pub struct SrAdapter<Y: System>(pub Y);

impl<Y> Model for SrAdapter<Y>
where
    Y: System + Send + Sync + 'static,
    Y::State: Clone + Debug + Hash + Eq + Send + Sync + 'static,
{
    type State = Y::State;
    type Action = usize;

    fn init_states(&self) -> Vec<Self::State> {
        vec![self.0.initial()]
    }
    fn actions(&self, state: &Self::State, actions: &mut Vec<usize>) {
        for a in 0..self.0.n_actions() {
            if self.0.enabled(state, a) {
                actions.push(a);
            }
        }
    }
    fn next_state(&self, last: &Self::State, action: usize) -> Option<Self::State> {
        self.0.step(last, action).next
    }
    fn within_boundary(&self, state: &Self::State) -> bool {
        self.0.within_bounds(state) && self.0.within_bounds_new(state)
    }
    fn properties(&self) -> Vec<Property<Self>> {
        vec![Property::always("explore everything", |_, _| true)]
    }
}

/// Returns stateright's unique state count for the system (BFS, all cores), or None when stateright did not finish
/// within `timeout_s` (the count would then be a lower bound only and is not compared).
pub fn stateright_unique_states<Y>(sys: Y, timeout_s: u64) -> Option<u64>
where
    Y: System + Send + Sync + 'static,
    Y::State: Clone + Debug + Hash + Eq + Send + Sync + 'static,
{
    let t0 = std::time::Instant::now();
    let checker = SrAdapter(sys)
        .checker()
        .threads(crate::util::threads())
        .timeout(std::time::Duration::from_secs(timeout_s))
        .spawn_bfs()
        .join();
    if t0.elapsed().as_secs() >= timeout_s {
        return None;
    }
    Some(checker.unique_state_count() as u64)
}

/// Cross-checks one run of the own explorer (looked up by name in `runs`) against stateright. Skipped, with a
/// note, when the own run did not reach its fixed point (then there is no number to compare) or stateright ran
/// out of time; a completed comparison that disagrees is a machinery error.
pub fn cross_check<Y>(rep: &mut crate::report::Report, xs: &mut Vec<serde_json::Value>, runs: &[serde_json::Value], sys: Y)
where
    Y: System + Send + Sync + 'static,
    Y::State: Clone + Debug + Hash + Eq + Send + Sync + 'static,
{
    use serde_json::json;
    let name = sys.name();
    let run = runs.iter().find(|r| r["run"] == json!(name));
    let Some(run) = run else {
        xs.push(json!({"run": name, "skipped": "the own explorer did not perform this run"}));
        return;
    };
    if run["fixed_point"] != json!(true) {
        xs.push(json!({"run": name, "skipped": "the own explorer did not reach a fixed point on this run"}));
        return;
    }
    let mine = run["states"].as_u64().unwrap_or(0);
    let timeout_s = if rep.ctx.tier.thorough() { 600 } else { 60 };
    match stateright_unique_states(sys, timeout_s) {
        None => xs.push(json!({"run": name, "skipped": format!("stateright did not finish within {} s", timeout_s), "own_explorer_states": mine})),
        Some(sr) => {
            xs.push(json!({"run": name, "stateright_unique_states": sr, "own_explorer_states": mine, "equal": sr == mine}));
            if sr != mine {
                rep.machinery_errors.push(format!("E5 cross-check: stateright found {} unique states for {}, the own explorer {}", sr, name, mine));
            }
        }
    }
}
