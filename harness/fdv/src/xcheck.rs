//! E5 — independent second engine: the same System is explored by stateright's BFS checker and the number of
//! unique states must equal the home-grown explorer's. A mismatch is a machinery error, never a verdict.

use std::fmt::Debug;
use std::hash::Hash;

use stateright::{Checker, Model, Property};

use crate::bfs::System;

pub struct SrAdapter<Y: System>(pub Y);

impl<Y> Model for SrAdapter<Y>
where
    Y: System + Send + Sync + 'static,
    Y::State: Clone + Debug + Hash + Eq + Send + Sync + 'static,
{
    type State = Y::State;
    type Action = usize;

    fn init_states(&self) -> Vec<Self::State> {
        vec![self.0.initial()]
    }
    fn actions(&self, state: &Self::State, actions: &mut Vec<usize>) {
        for a in 0..self.0.n_actions() {
            if self.0.enabled(state, a) {
                actions.push(a);
            }
        }
    }
    fn next_state(&self, last: &Self::State, action: usize) -> Option<Self::State> {
        self.0.step(last, action).next
    }
    fn within_boundary(&self, state: &Self::State) -> bool {
        self.0.within_bounds(state)
    }
    fn properties(&self) -> Vec<Property<Self>> {
        vec![Property::always("explore everything", |_, _| true)]
    }
}

/// Returns stateright's unique state count for the system (BFS, all cores).
pub fn stateright_unique_states<Y>(sys: Y) -> u64
where
    Y: System + Send + Sync + 'static,
    Y::State: Clone + Debug + Hash + Eq + Send + Sync + 'static,
{
    let checker = SrAdapter(sys).checker().threads(crate::util::threads()).spawn_bfs().join();
    checker.unique_state_count() as u64
}
