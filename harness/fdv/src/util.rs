//! Small shared utilities: panic capture, parallel index enumeration, fingerprints, hex.

use std::cell::RefCell;
use std::collections::BTreeMap;
use std::panic::{self, AssertUnwindSafe};
use std::sync::atomic::{AtomicU64, Ordering};
use std::sync::Once;

/// What a caught panic looked like.
#[derive(Debug, Clone, PartialEq, Eq)]
pub struct Panicked {
    /// `file:line` of the panic site, with any `/repo/` prefix removed.
    pub location: String,
    pub message: String,
}

impl Panicked {
    /// Stable class of this panic for violation signatures: site + message with digits squashed.
    pub fn class(&self) -> String {
        let mut msg = String::new();
        let mut last_digit = false;
        for c in self.message.chars() {
            if msg.len() >= 28 {
                break;
            }
            if c.is_ascii_digit() {
                if !last_digit {
                    msg.push('N');
                }
                last_digit = true;
            } else {
                msg.push(c);
                last_digit = false;
            }
        }
        // strip the toolchain hash from std locations
        let loc = match self.location.find("/library/") {
            Some(i) if self.location.starts_with("/rustc/") => format!("std{}", &self.location[i..]),
            _ => self.location.clone(),
        };
        format!("panic@{}:{}", loc, msg)
    }
}

thread_local! {
    static LAST_PANIC: RefCell<Option<Panicked>> = const { RefCell::new(None) };
    static CATCHING: RefCell<u32> = const { RefCell::new(0) };
}

static HOOK: Once = Once::new();

fn install_hook() {
    HOOK.call_once(|| {
        let default = panic::take_hook();
        panic::set_hook(Box::new(move |info| {
            let catching = CATCHING.with(|c| *c.borrow() > 0);
            if catching {
                let location = info
                    .location()
                    .map(|l| {
                        let f = l.file();
                        let f = f.strip_prefix("/repo/").unwrap_or(f);
                        format!("{}:{}", f, l.line())
                    })
                    .unwrap_or_else(|| "?".into());
                let message = if let Some(s) = info.payload().downcast_ref::<&str>() {
                    s.to_string()
                } else if let Some(s) = info.payload().downcast_ref::<String>() {
                    s.clone()
                } else {
                    "<non-string panic payload>".to_string()
                };
                LAST_PANIC.with(|p| *p.borrow_mut() = Some(Panicked { location, message }));
            } else {
                default(info);
            }
        }));
    });
}

/// Runs `f`, turning an unwind into `Err(Panicked)` silently.
pub fn catch<T>(f: impl FnOnce() -> T) -> Result<T, Panicked> {
    install_hook();
    CATCHING.with(|c| *c.borrow_mut() += 1);
    let r = panic::catch_unwind(AssertUnwindSafe(f));
    CATCHING.with(|c| *c.borrow_mut() -= 1);
    match r {
        Ok(v) => Ok(v),
        Err(_) => Err(LAST_PANIC.with(|p| p.borrow_mut().take()).unwrap_or(Panicked {
            location: "?".into(),
            message: "?".into(),
        })),
    }
}

pub fn threads() -> usize {
    std::env::var("VERIF_THREADS")
        .ok()
        .and_then(|s| s.parse().ok())
        .unwrap_or_else(|| std::thread::available_parallelism().map(|n| n.get()).unwrap_or(4))
        .max(1)
}

/// Enumerates indices `0..n` over all cores in blocks; every worker folds into its own accumulator.
/// The result is the list of accumulators (order irrelevant for commutative merges).
pub fn par_range<A: Send>(n: u64, block: u64, init: impl Fn() -> A + Sync, f: impl Fn(&mut A, u64) + Sync) -> Vec<A> {
    let next = AtomicU64::new(0);
    let nthreads = threads().min(((n / block.max(1)) + 1) as usize).max(1);
    let mut out = Vec::new();
    std::thread::scope(|s| {
        let mut hs = Vec::new();
        for _ in 0..nthreads {
            hs.push(s.spawn(|| {
                let mut acc = init();
                loop {
                    let start = next.fetch_add(block, Ordering::Relaxed);
                    if start >= n {
                        break;
                    }
                    let end = (start + block).min(n);
                    for i in start..end {
                        f(&mut acc, i);
                    }
                }
                acc
            }));
        }
        for h in hs {
            out.push(h.join().expect("worker thread of the harness panicked (machinery error)"));
        }
    });
    out
}

/// FNV-1a 64-bit over bytes, used for fingerprints of cases.
pub fn fnv(bytes: &[u8]) -> u64 {
    let mut h: u64 = 0xcbf29ce484222325;
    for &b in bytes {
        h ^= b as u64;
        h = h.wrapping_mul(0x100000001b3);
    }
    h
}

pub fn fnv_mix(h: u64, v: u64) -> u64 {
    let mut h = h;
    for i in 0..8 {
        h ^= (v >> (i * 8)) & 0xff;
        h = h.wrapping_mul(0x100000001b3);
    }
    h
}

pub fn hex(bytes: &[u8]) -> String {
    let mut s = String::with_capacity(bytes.len() * 2);
    for b in bytes {
        s.push_str(&format!("{:02X}", b));
    }
    s
}

pub fn unhex(s: &str) -> Vec<u8> {
    let b = s.as_bytes();
    (0..b.len() / 2)
        .map(|i| u8::from_str_radix(std::str::from_utf8(&b[2 * i..2 * i + 2]).unwrap(), 16).unwrap())
        .collect()
}

/// Printable rendering of a wire string for samples/replays (non-printable bytes as \xNN).
pub fn show_bytes(bytes: &[u8]) -> String {
    let mut s = String::new();
    for &b in bytes {
        match b {
            b'\r' => s.push_str("\\r"),
            b'\n' => s.push_str("\\n"),
            b'\\' => s.push_str("\\\\"),
            0x20..=0x7e => s.push(b as char),
            _ => s.push_str(&format!("\\x{:02X}", b)),
        }
    }
    s
}

/// Position-identifying fill pattern: never constant, depends on position j, stream k and seed.
pub fn fill(len: usize, k: u64, seed: u64) -> Vec<u8> {
    (0..len).map(|j| ((17 * j as u64 + 31 * k + seed) % 251) as u8).collect()
}

/// Histogram helper.
#[derive(Default, Debug, Clone)]
pub struct Histo(pub BTreeMap<String, u64>);

impl Histo {
    pub fn add(&mut self, k: &str) {
        self.addn(k, 1);
    }
    pub fn addn(&mut self, k: &str, n: u64) {
        if let Some(v) = self.0.get_mut(k) {
            *v += n;
        } else {
            self.0.insert(k.to_string(), n);
        }
    }
    pub fn merge(&mut self, other: &Histo) {
        for (k, v) in &other.0 {
            self.addn(k, *v);
        }
    }
    pub fn get(&self, k: &str) -> u64 {
        self.0.get(k).copied().unwrap_or(0)
    }
    pub fn to_json(&self) -> serde_json::Value {
        serde_json::Value::Object(self.0.iter().map(|(k, v)| (k.clone(), serde_json::json!(v))).collect())
    }
}

/// Counts distinct 64-bit fingerprints.
pub fn count_distinct(mut v: Vec<u64>) -> u64 {
    v.sort_unstable();
    v.dedup();
    v.len() as u64
}

/// Runs `f` on a brand-new thread (fresh thread-locals), so that a case consisting of a call SEQUENCE is reproducible
/// on its own: used by the history checks that look for state carried over between calls.
pub fn in_fresh_thread<T: Send + 'static>(f: impl FnOnce() -> T + Send + 'static) -> T {
    std::thread::Builder::new().stack_size(1 << 20).spawn(f).expect("spawn").join().expect("history worker panicked (machinery)")
}

/// When set, the I/O case runners execute every case on a fresh thread (slow, but each case is then independent of
/// the cases enumerated before it and replays on its own). The checks enumerate directly first and switch this on
/// only when that pass found a violation, and always for replays.
pub static ISOLATE_CASES: std::sync::atomic::AtomicBool = std::sync::atomic::AtomicBool::new(false);

pub fn maybe_isolated<T: Send + 'static>(f: impl FnOnce() -> T + Send + 'static) -> T {
    if ISOLATE_CASES.load(std::sync::atomic::Ordering::Relaxed) {
        in_fresh_thread(f)
    } else {
        f()
    }
}
