//! C18 — serial bus pacing: 30 ms after a data chunk, 100 ms after an in-progress report
//! (E3 over a virtual clock for every ordered pair of message kinds x every reply kind; every candidate
//! violation is confirmed on the real clock before it is reported; plus a real-clock pass over all kinds).

use std::time::Duration;

use flipdot_core::{Address, ChunkCount, Data, Frame, Message, MsgType, Offset, State};
use serde_json::{json, Value};

use crate::devices::{serial_run, Ev, RAns, SerialRun};
use crate::props::c16::reply_due;
use crate::refmodel::{msg_from_json, msg_json, msg_str, ref_encode, OPS, STATES};
use crate::report::{Acc, Ctx, Report, Violation};
use crate::util::{fill, hex, par_range, unhex};

const ID: &str = "C18";
type V = (&'static str, String, String);
const CHUNK_PAUSE: Duration = Duration::from_millis(30);
const PROGRESS_PAUSE: Duration = Duration::from_millis(100);

pub fn kinds(seed: u64) -> Vec<Message<'static>> {
    let a = Address(3);
    let mut v: Vec<Message<'static>> = vec![
        Message::SendData(Offset(0), Data::try_new(fill(16, 1, seed)).unwrap()),
        Message::SendData(Offset(16), Data::try_new(Vec::<u8>::new()).unwrap()),
        Message::SendData(Offset(32), Data::try_new(vec![0x42u8]).unwrap()),
        Message::SendData(Offset(0xFFF0), Data::try_new(fill(255, 2, seed)).unwrap()),
        Message::DataChunksSent(ChunkCount(2)),
        Message::Hello(a),
        Message::QueryState(a),
        Message::Goodbye(a),
        Message::PixelsComplete(a),
        Message::Unknown(Frame::new(a, MsgType(9), Data::try_new(vec![1u8]).unwrap())),
        Message::Unknown(Frame::new(a, MsgType(0x10), Data::try_new(vec![0u8; 16]).unwrap())),
    ];
    for o in OPS.iter() {
        v.push(Message::RequestOperation(a, o.0));
        v.push(Message::AckOperation(a, o.0));
    }
    for s in STATES.iter() {
        v.push(Message::ReportState(a, s.0));
    }
    v
}

/// Reply lines: 13 states, 6 acks, an unknown frame, a foreign in-progress report, a data chunk.
pub fn reply_kinds() -> Vec<(String, Vec<u8>, bool)> {
    let mut v = vec![];
    for s in STATES.iter() {
        let inprog = matches!(s.0, State::PageLoadInProgress | State::PageShowInProgress);
        v.push((format!("report {:?}", s.0), ref_encode(3, 4, &[s.1], true), inprog));
    }
    for o in OPS.iter() {
        v.push((format!("ack {:?}", o.0), ref_encode(3, 5, &[o.2], true), false));
    }
    v.push(("unknown".into(), ref_encode(3, 9, &[1, 2], true), false));
    v.push(("foreign report PageShowInProgress".into(), ref_encode(0xABCD, 4, &[0x11], true), true));
    v.push(("data chunk as reply".into(), ref_encode(0, 0, &[0x5A; 16], true), false));
    // controller-originated frames coming back (an adapter echoing the request)
    v.push(("echo hello".into(), ref_encode(3, 2, &[0xFF], true), false));
    v.push(("echo query".into(), ref_encode(3, 2, &[0x00], true), false));
    v.push(("echo request".into(), ref_encode(3, 3, &[0xA9], true), false));
    // a garbled line followed by a good one (a bus that asks again after a garbled reply must still pace the reply it
    // finally returns; on the unchanged tree the first exchange fails and the second line answers the next message)
    let code = |st: State| STATES.iter().find(|s| s.0 == st).unwrap().1;
    let mut bad = ref_encode(3, 4, &[code(State::PageLoaded)], true);
    let n = bad.len();
    bad[n - 3] = if bad[n - 3] == b'0' { b'1' } else { b'0' }; // wrong checksum digit
    for (name, st, inprog) in [("garbled then report PageShowInProgress", State::PageShowInProgress, true), ("garbled then report PageLoadInProgress", State::PageLoadInProgress, true), ("garbled then report PageLoaded", State::PageLoaded, false)] {
        let mut two = bad.clone();
        two.extend_from_slice(&ref_encode(3, 4, &[code(st)], true));
        v.push((name.into(), two, inprog));
    }
    let mut two = b"?\r\n".to_vec();
    two.extend_from_slice(&ref_encode(3, 4, &[code(State::PageShowInProgress)], true));
    v.push(("malformed then report PageShowInProgress".into(), two, true));
    v
}

fn sleeps_between(events: &[Ev], from: usize, to: usize) -> Duration {
    events[from..to].iter().map(|e| if let Ev::Sleep(d) = e { *d } else { Duration::ZERO }).sum()
}

/// Pacing clauses on the virtual clock for the pair (m1 with reply r1, then m2 with reply r2).
fn virtual_pair(m1: &Message<'static>, r1: &(String, Vec<u8>, bool), m2: &Message<'static>, r2: &(String, Vec<u8>, bool)) -> Vec<V> {
    let mut tape = vec![];
    if reply_due(m1) {
        tape.extend_from_slice(&r1.1);
    }
    if reply_due(m2) {
        tape.extend_from_slice(&r2.1);
    }
    let run = serial_run(&[m1.clone(), m2.clone()], tape, vec![], vec![], RAns::Eof, true);
    judge(&run, &[(m1, r1), (m2, r2)], true)
}

fn judge(run: &SerialRun, pair: &[(&Message<'static>, &(String, Vec<u8>, bool))], virtual_clock: bool) -> Vec<V> {
    let mut out: Vec<V> = vec![];
    if !run.setup_ok || run.exchanges.len() != pair.len() {
        out.push(("setup", "failed".into(), "could not run the exchanges".into()));
        return out;
    }
    for (i, ex) in run.exchanges.iter().enumerate() {
        let (m, r) = pair[i];
        if let Some(p) = &ex.panicked {
            out.push(("no-panic", p.class(), format!("{} panicked: {}", msg_str(m), p.message)));
            return out;
        }
        if ex.result.is_err() {
            continue; // an exchange that failed (e.g. no reply line left) is not C18's business
        }
        let is_chunk = matches!(m, Message::SendData(..));
        let _ = r.2;
        // what was actually returned decides, not what the harness meant to send
        let got_inprogress = matches!(ex.result, Ok(Some(Message::ReportState(_, State::PageLoadInProgress | State::PageShowInProgress))));
        let last_write = ex.events.iter().rposition(|e| matches!(e, Ev::Write { .. }));
        let last_read = ex.events.iter().rposition(|e| matches!(e, Ev::Read { .. }));
        let kind = match m {
            Message::SendData(_, d) => format!("SendData-len{}", match d.get().len() { 0 => "0".to_string(), 1..=15 => "1-15".to_string(), 16 => "16".to_string(), _ => "17+".to_string() }),
            Message::RequestOperation(..) => "RequestOperation".to_string(),
            other => crate::refmodel::kind_name(other).to_string(),
        };
        if virtual_clock {
            let n = ex.events.len();
            let first_write = ex.events.iter().position(|e| matches!(e, Ev::Write { .. })).unwrap_or(0);
            // pause between this message's last write and the NEXT message's first write (it may be taken on either side of the call boundary)
            let after_write = last_write.map(|w| sleeps_between(&ex.events, w + 1, n)).unwrap_or(Duration::ZERO)
                + run.exchanges.get(i + 1).map(|nx| {
                    let fw = nx.events.iter().position(|e| matches!(e, Ev::Write { .. })).unwrap_or(nx.events.len());
                    sleeps_between(&nx.events, 0, fw)
                }).unwrap_or(Duration::ZERO);
            let after_read = last_read.map(|rd| sleeps_between(&ex.events, rd + 1, n)).unwrap_or(Duration::ZERO);
            // this exchange's own delay: pauses from its first write on; pauses before its first write belong to it
            // unless the previous message was a data chunk (then they are that chunk's pause)
            let prev_is_chunk = i > 0 && matches!(pair[i - 1].0, Message::SendData(..));
            let total = sleeps_between(&ex.events, first_write, n) + if prev_is_chunk { Duration::ZERO } else { sleeps_between(&ex.events, 0, first_write) };
            if is_chunk && i + 1 < run.exchanges.len() && after_write < CHUNK_PAUSE {
                out.push(("30ms-after-data-chunk", kind.clone(), format!("#{} {}: only {:?} of pause between the chunk's last port write and the next message's first port write", i, msg_str(m), after_write)));
            }
            if got_inprogress && after_read < PROGRESS_PAUSE {
                out.push(("100ms-after-in-progress-report", format!("{}:{}", kind, r.0.replace(' ', "-")), format!("#{} {} answered by {:?}: only {:?} of pause between reading the report and returning", i, msg_str(m), ex.result.as_ref().ok().and_then(|o| o.as_ref()).map(|x| msg_str(x)), after_read)));
            }
            if !is_chunk && !got_inprogress && total >= CHUNK_PAUSE {
                out.push(("others-not-delayed", format!("{}:{}", kind, if reply_due(m) { r.0.replace(' ', "-") } else { "no-reply".into() }), format!("#{} {} (reply {}): paused {:?} although neither pacing rule applies", i, msg_str(m), if reply_due(m) { &r.0 } else { "none" }, total)));
            }
        }
    }
    out
}

/// Real clock: returns, per exchange, (seconds between last port write of this exchange and first port
/// write of the next one or the return, seconds between last read and return, total seconds).
fn real_measure(pair: &[(&Message<'static>, &(String, Vec<u8>, bool))]) -> Option<Vec<(f64, f64, f64)>> {
    let mut tape = vec![];
    for (m, r) in pair {
        if reply_due(m) {
            tape.extend_from_slice(&r.1);
        }
    }
    let msgs: Vec<Message<'static>> = pair.iter().map(|(m, _)| (*m).clone()).collect();
    let t_start = std::time::Instant::now();
    let run = serial_run(&msgs, tape, vec![], vec![], RAns::Eof, false);
    let _ = t_start;
    if !run.setup_ok || run.exchanges.len() != pair.len() {
        return None;
    }
    let mut out = vec![];
    let mut prev_return = None::<f64>;
    for (i, ex) in run.exchanges.iter().enumerate() {
        let io_events: Vec<&Ev> = ex.events.iter().filter(|e| matches!(e, Ev::Read { .. } | Ev::Write { .. })).collect();
        if io_events.len() != ex.stamps.len() || io_events.is_empty() {
            out.push((f64::MAX, f64::MAX, f64::MAX));
            prev_return = Some(ex.returned_at);
            continue;
        }
        let lw = io_events.iter().rposition(|e| matches!(e, Ev::Write { .. })).map(|k| ex.stamps[k]);
        let lr = io_events.iter().rposition(|e| matches!(e, Ev::Read { .. })).map(|k| ex.stamps[k]);
        let next_first_write = run.exchanges.get(i + 1).and_then(|n| n.stamps.first().copied()).unwrap_or(ex.returned_at);
        let start = prev_return.unwrap_or(ex.stamps[0]);
        out.push((lw.map(|t| next_first_write - t).unwrap_or(0.0), lr.map(|t| ex.returned_at - t).unwrap_or(0.0), ex.returned_at - start.min(ex.stamps[0])));
        prev_return = Some(ex.returned_at);
    }
    Some(out)
}

/// Real clock with a port that is NOT instantaneous: every port read/write call blocks for `d` before it answers
/// (stamps are taken when a call ends). The first component is corrected for the blocking of the next message's
/// first write, so it is the time from the END of this exchange's last write to (at the latest) the START of the
/// next write; a real sleep can only overshoot, so the figures can only be too large, never too small.
fn real_measure_slow(pair: &[(&Message<'static>, &(String, Vec<u8>, bool))], d: Duration) -> Option<Vec<(f64, f64, f64)>> {
    crate::devices::set_slow_port(d);
    let r = real_measure(pair);
    crate::devices::set_slow_port(Duration::ZERO);
    r.map(|mut v| {
        let n = v.len();
        for (i, x) in v.iter_mut().enumerate() {
            if i + 1 < n && x.0 != f64::MAX {
                x.0 -= d.as_secs_f64();
            }
        }
        v
    })
}

const SLOW_PORT_DELAY: Duration = Duration::from_millis(4);

/// Slow-port judgement of one (message, reply) followed by a chunk-count message: lower bounds only.
fn slow_port_violations(m: &Message<'static>, r: &(String, Vec<u8>, bool)) -> (Vec<V>, Option<(f64, f64, f64)>) {
    let follow = Message::DataChunksSent(ChunkCount(1));
    let fr = ("report PageLoaded".to_string(), ref_encode(3, 4, &[0x10], true), false);
    let pair = [(m, r), (&follow, &fr)];
    let is_chunk = matches!(m, Message::SendData(..));
    let got_inprog = reply_due(m) && r.2;
    let mut vs: Vec<V> = vec![];
    let mut first = None;
    // a correct bus pauses at least the bound every time, so one measurement below it is a violation; up to 3 are taken
    for _ in 0..3 {
        if let Some(ms) = real_measure_slow(&pair, SLOW_PORT_DELAY) {
            if first.is_none() {
                first = Some(ms[0]);
            }
            if is_chunk && ms[0].0 < 0.030 {
                vs.push(("30ms-after-data-chunk", "real-clock-slow-port".into(), format!("{} through a port whose calls block for {:?}: real clock {:.2} ms between the end of the chunk's last write and the start of the next write", msg_str(m), SLOW_PORT_DELAY, ms[0].0 * 1e3)));
            }
            if got_inprog && ms[0].1 < 0.100 {
                vs.push(("100ms-after-in-progress-report", "real-clock-slow-port".into(), format!("{} answered by {} through a port whose calls block for {:?}: real clock {:.2} ms between the end of the last read and returning", msg_str(m), r.0, SLOW_PORT_DELAY, ms[0].1 * 1e3)));
            }
            if !vs.is_empty() {
                break;
            }
        }
    }
    (vs, first)
}

/// Confirms candidate violations of a pair on the real clock. Lower bounds: one measurement suffices (sleep can
/// only take longer); "not delayed": minimum over 5 repetitions must stay below the pacing delay.
fn confirm_real(m1: &Message<'static>, r1: &(String, Vec<u8>, bool), m2: &Message<'static>, r2: &(String, Vec<u8>, bool), cands: Vec<V>) -> Vec<V> {
    let pair = [(m1, r1), (m2, r2)];
    let mut confirmed = vec![];
    for (clause, class, detail) in cands {
        let which = if detail.starts_with("#1 ") { 1 } else { 0 };
        match clause {
            // lower bounds: a correct bus sleeps at least the bound every time, so ONE measurement below it confirms
            // the candidate; on a loaded machine a measurement can be inflated by scheduling, so up to 5 are taken
            "30ms-after-data-chunk" => {
                for _ in 0..5 {
                    if let Some(ms) = real_measure(&pair) {
                        if ms[which].0 < 0.030 {
                            confirmed.push((clause, class.clone(), format!("{} | real clock: {:.2} ms between the chunk's last write and the next write", detail, ms[which].0 * 1e3)));
                            break;
                        }
                    }
                }
            }
            "100ms-after-in-progress-report" => {
                for _ in 0..5 {
                    if let Some(ms) = real_measure(&pair) {
                        if ms[which].1 < 0.100 {
                            confirmed.push((clause, class.clone(), format!("{} | real clock: returned {:.2} ms after reading the report", detail, ms[which].1 * 1e3)));
                            break;
                        }
                    }
                }
            }
            "others-not-delayed" => {
                // an unpaced exchange takes microseconds; on a loaded machine single measurements can be slow, so up to
                // 40 are taken and one fast one refutes the candidate (a pacing delay is never shorter than its sleep)
                let mut min = f64::MAX;
                let mut max = 0f64;
                for k in 0..40 {
                    if let Some(ms) = real_measure(&pair) {
                        min = min.min(ms[which].2);
                        max = max.max(ms[which].2);
                    }
                    // five measurements that agree to within 5 ms are a sleep, not scheduling noise: no need for more
                    if k >= 4 && (min < 0.030 || max - min < 0.005) {
                        break;
                    }
                }
                if min != f64::MAX && min >= 0.030 {
                    confirmed.push((clause, class, format!("{} | real clock: minimum over 40 repetitions {:.2} ms", detail, min * 1e3)));
                }
            }
            _ => confirmed.push((clause, class, detail)),
        }
    }
    confirmed
}

/// Per-signature memo of real-clock confirmations, so that one broken rule costs a handful of real sleeps, not
/// one per enumerated pair: Some(true) = confirmed once, Some(false) = refuted once (seam bypassed).
static MEMO: std::sync::Mutex<Vec<(String, bool)>> = std::sync::Mutex::new(Vec::new());

pub fn check_pair(m1: &Message<'static>, r1: &(String, Vec<u8>, bool), m2: &Message<'static>, r2: &(String, Vec<u8>, bool), use_memo: bool) -> (Vec<V>, usize) {
    let cands = virtual_pair(m1, r1, m2, r2);
    let n = cands.len();
    if cands.is_empty() {
        return (cands, 0);
    }
    let mut out = vec![];
    for c in cands {
        let sig = format!("{}/{}", c.0, c.1);
        let known = if use_memo { MEMO.lock().unwrap().iter().find(|x| x.0 == sig).map(|x| x.1) } else { None };
        match known {
            Some(true) => out.push(c),
            Some(false) => {}
            None => {
                let conf = confirm_real(m1, r1, m2, r2, vec![c]);
                if use_memo {
                    MEMO.lock().unwrap().push((sig, !conf.is_empty()));
                }
                out.extend(conf);
            }
        }
    }
    (out, n)
}

fn case_json(m1: &Message<'static>, r1: &(String, Vec<u8>, bool), m2: &Message<'static>, r2: &(String, Vec<u8>, bool)) -> Value {
    json!({"kind": "pair", "m1": msg_json(m1), "r1": {"name": r1.0, "line": hex(&r1.1), "in_progress": r1.2}, "m2": msg_json(m2), "r2": {"name": r2.0, "line": hex(&r2.1), "in_progress": r2.2}})
}

pub fn run(ctx: &Ctx) -> Report {
    let mut rep = Report::new(ctx);
    rep.rule = "virtual clock: every ordered pair (m1, m2) of 47 message kinds (4 data-chunk shapes incl. empty/1/255 bytes, count, hello, query, goodbye, pixels-complete, 2 unknown, 6 requests, 6 acks, 13 reports) \
                sent through one real SerialSignBus; for each message that expects a reply, every reply kind (13 states, 6 acks, unknown frame, foreign in-progress report, data chunk, 3 echoed controller frames) is offered for m1 AND for m2 (all combinations), and whether the 100 ms rule applies is decided by the message the bus actually returned. \
                The event log of port writes, port reads and pauses is judged. Every candidate violation is re-measured on the real clock and reported only if the real clock agrees. \
                Real-clock pass: every message kind and every reply kind once, lower bounds asserted, unpaced exchanges by the minimum over 5 repetitions. Non-trivial = exchanges with a data chunk or an in-progress reply involved; distinct by pair index"
        .into();
    rep.trusted_base = vec!["the two-line sleep seam (flipdot_serial::verif_hooks), cross-checked by the real-clock pass".into(), "devices.rs".into()];
    let ks = kinds(ctx.seed);
    let rk = reply_kinds();
    let neutral = rk.iter().position(|r| r.0 == "report PageLoaded").unwrap();
    let inprog = rk.iter().position(|r| r.0 == "report PageLoadInProgress").unwrap();
    // jobs: (i1, r1, i2, r2)
    let mut jobs: Vec<(usize, usize, usize, usize)> = vec![];
    for i1 in 0..ks.len() {
        let r1s: Vec<usize> = if reply_due(&ks[i1]) { (0..rk.len()).collect() } else { vec![neutral] };
        for i2 in 0..ks.len() {
            // every reply kind for the first message; for the second one every reply kind too when it expects a reply
            // (state carried from the first exchange must not change how the second reply is paced)
            let r2s: Vec<usize> = if reply_due(&ks[i2]) { (0..rk.len()).collect() } else { vec![neutral] };
            for &r1 in &r1s {
                for &r2 in &r2s {
                    jobs.push((i1, r1, i2, r2));
                }
            }
        }
    }
    let _ = inprog;
    let accs = par_range(jobs.len() as u64, 64, || (Acc::default(), 0u64), |st, i| {
        let (acc, unconfirmed) = st;
        let (i1, r1, i2, r2) = jobs[i as usize];
        acc.evals += 1;
        let paced = matches!(ks[i1], Message::SendData(..)) || matches!(ks[i2], Message::SendData(..)) || (reply_due(&ks[i1]) && rk[r1].2) || (reply_due(&ks[i2]) && rk[r2].2);
        if paced {
            acc.nontrivial_fp.push(i);
        }
        acc.outcomes.add(if paced { "pair-with-pacing" } else { "pair-without-pacing" });
        let (vs, cands) = check_pair(&ks[i1], &rk[r1], &ks[i2], &rk[r2], true);
        *unconfirmed += (cands - vs.len().min(cands)) as u64;
        for (clause, class, detail) in vs {
            acc.violation(ID, Violation::new(clause, class, detail, case_json(&ks[i1], &rk[r1], &ks[i2], &rk[r2]), i));
        }
    });
    let mut all = Acc::default();
    let mut unconfirmed = 0u64;
    for (a, u) in accs {
        all.merge(ID, a);
        unconfirmed += u;
    }
    let virtual_pairs = all.evals;

    // real-clock pass (sequential: timing must not be disturbed by our own worker threads)
    let mut real_rows = vec![];
    let follow = Message::DataChunksSent(ChunkCount(1));
    let follow_r = &rk[neutral];
    let mut real_evals = 0u64;
    for (i, m) in ks.iter().enumerate() {
        let rs: Vec<usize> = if reply_due(m) && i == ks.iter().position(|x| matches!(x, Message::QueryState(_))).unwrap() { (0..rk.len()).collect() } else if reply_due(m) { vec![neutral, inprog] } else { vec![neutral] };
        for r in rs {
            if rk[r].0.starts_with("garbled") || rk[r].0.starts_with("malformed") {
                continue; // two-line kinds: the exchange fails on the first line; they are judged on the virtual clock by what is actually returned
            }
            let pair = [(m, &rk[r]), (&follow, follow_r)];
            let is_chunk = matches!(m, Message::SendData(..));
            let got_inprog = reply_due(m) && rk[r].2;
            let reps = if is_chunk || got_inprog { 1 } else { 5 };
            let mut best = (f64::MAX, f64::MAX, f64::MAX);
            for _ in 0..reps {
                real_evals += 1;
                if let Some(ms) = real_measure(&pair) {
                    best = (best.0.min(ms[0].0), best.1.min(ms[0].1), best.2.min(ms[0].2));
                }
            }
            // loaded machine: an unpaced exchange that looks slow is measured up to 35 more times; one fast
            // measurement settles it (a real pacing delay can never be shorter than its sleep)
            let mut extra = 0;
            let mut worst = best.2;
            while !is_chunk && !got_inprog && best.2 >= 0.030 && best.2 != f64::MAX && extra < 35 {
                extra += 1;
                real_evals += 1;
                if let Some(ms) = real_measure(&pair) {
                    worst = worst.max(ms[0].2);
                    best = (best.0.min(ms[0].0), best.1.min(ms[0].1), best.2.min(ms[0].2));
                }
                if extra >= 3 && worst - best.2 < 0.005 {
                    break; // consistently slow to within 5 ms: a sleep, not noise
                }
            }
            if best.2 == f64::MAX {
                rep.machinery_errors.push(format!("real-clock measurement of {} failed", msg_str(m)));
                continue;
            }
            if real_rows.len() < 6 || is_chunk || got_inprog {
                real_rows.push(json!({"message": msg_str(m), "reply": if reply_due(m) { rk[r].0.clone() } else { "-".into() }, "ms_last_write_to_next_write": (best.0 * 1e5).round() / 100.0, "ms_last_read_to_return": (best.1 * 1e5).round() / 100.0, "ms_total": (best.2 * 1e5).round() / 100.0}));
            }
            let mut vs: Vec<V> = vec![];
            if is_chunk && best.0 < 0.030 {
                vs.push(("30ms-after-data-chunk", "real-clock".into(), format!("{}: real clock {:.2} ms between the chunk's last write and the next write", msg_str(m), best.0 * 1e3)));
            }
            if got_inprog && best.1 < 0.100 {
                vs.push(("100ms-after-in-progress-report", "real-clock".into(), format!("{} answered by {}: real clock {:.2} ms between reading the report and returning", msg_str(m), rk[r].0, best.1 * 1e3)));
            }
            if !is_chunk && !got_inprog && best.2 >= 0.030 {
                vs.push(("others-not-delayed", "real-clock".into(), format!("{} (reply {}): real clock minimum over up to 40 repetitions {:.2} ms", msg_str(m), rk[r].0, best.2 * 1e3)));
            }
            for (clause, class, detail) in vs {
                all.violation(ID, Violation::new(clause, class, detail, json!({"kind": "real", "m": msg_json(m), "r": {"name": rk[r].0, "line": hex(&rk[r].1), "in_progress": rk[r].2}}), (1 << 40) + i as u64));
            }
        }
    }
    // slow-port pass (after seed C18-w7-1: pauses shortened by the time the port's own calls took): the same lower
    // bounds through a port whose every read/write call blocks for 4 ms of real time
    let mut slow_rows = vec![];
    let mut slow_evals = 0u64;
    for (i, m) in ks.iter().enumerate() {
        let is_chunk = matches!(m, Message::SendData(..));
        let rs: Vec<usize> = if is_chunk { vec![neutral] } else if reply_due(m) { (0..rk.len()).filter(|&r| rk[r].2 && !rk[r].0.starts_with("garbled") && !rk[r].0.starts_with("malformed")).collect() } else { vec![] };
        for r in rs {
            if !is_chunk && !matches!(m, Message::QueryState(_)) && r != inprog {
                continue;
            }
            slow_evals += 1;
            let (vs, first) = slow_port_violations(m, &rk[r]);
            if let Some(f) = first {
                if slow_rows.len() < 8 {
                    slow_rows.push(json!({"message": msg_str(m), "reply": if reply_due(m) { rk[r].0.clone() } else { "-".into() }, "ms_end_of_last_write_to_start_of_next_write": (f.0 * 1e5).round() / 100.0, "ms_end_of_last_read_to_return": (f.1 * 1e5).round() / 100.0}));
                }
            } else {
                rep.machinery_errors.push(format!("slow-port measurement of {} failed", msg_str(m)));
            }
            for (clause, class, detail) in vs {
                all.violation(ID, Violation::new(clause, class, detail, json!({"kind": "real-slow", "m": msg_json(m), "r": {"name": rk[r].0, "line": hex(&rk[r].1), "in_progress": rk[r].2}}), (1 << 41) + i as u64));
            }
        }
    }
    real_evals += slow_evals;
    all.evals += real_evals;
    all.samples.push(case_json(&ks[0], &rk[neutral], &ks[6], &rk[inprog]));
    all.samples.push(json!({"virtual_event_log_of": "SendData then QueryState answered PageLoadInProgress", "expected": ["Write(frame)", "Sleep(30ms)", "Write(frame)", "Read x N", "Sleep(100ms)"]}));
    let nt = rep.absorb(all);
    rep.states = nt;
    rep.transitions = rep.evaluations;
    rep.set("virtual_pairs", json!(virtual_pairs));
    rep.set("real_clock_measurements", json!(real_evals));
    rep.set("real_clock_rows", Value::Array(real_rows));
    rep.set("slow_port_measurements", json!(slow_evals));
    rep.set("slow_port_rows", Value::Array(slow_rows));
    rep.set("virtual_candidates_not_confirmed_by_real_clock", json!(unconfirmed));
    if unconfirmed > 0 {
        rep.machinery_errors.push(format!("{} pacing violations seen on the virtual clock were NOT confirmed by the real clock: the sleep seam is being bypassed; the real-clock pass is the verdict", unconfirmed));
    }
    rep.guard("paced-and-unpaced-pairs", rep.outcomes.get("pair-with-pacing") > 0 && rep.outcomes.get("pair-without-pacing") > 0, "both kinds of pairs enumerated");
    rep.assumptions.push("wall-clock time is not enumerable: the exhaustive part is over message/reply kinds with time owned by the seam; the real-clock pass measures".into());
    rep
}

pub fn replay(_ctx: &Ctx, case: &Value) -> Result<Vec<Violation>, String> {
    let rd = |v: &Value| -> (String, Vec<u8>, bool) { (v["name"].as_str().unwrap_or("").to_string(), unhex(v["line"].as_str().unwrap_or("")), v["in_progress"].as_bool().unwrap_or(false)) };
    match case["kind"].as_str() {
        Some("pair") => {
            let (m1, m2) = (msg_from_json(&case["m1"]), msg_from_json(&case["m2"]));
            let (vs, _) = check_pair(&m1, &rd(&case["r1"]), &m2, &rd(&case["r2"]), false);
            Ok(vs.into_iter().map(|(c, k, d)| Violation::new(c, k, d, case.clone(), 0)).collect())
        }
        Some("real") => {
            let m = msg_from_json(&case["m"]);
            let r = rd(&case["r"]);
            let follow = Message::DataChunksSent(ChunkCount(1));
            let fr = ("report PageLoaded".to_string(), ref_encode(3, 4, &[0x10], true), false);
            let pair = [(&m, &r), (&follow, &fr)];
            let is_chunk = matches!(m, Message::SendData(..));
            let got_inprog = reply_due(&m) && r.2;
            let mut best = (f64::MAX, f64::MAX, f64::MAX);
            for _ in 0..(if is_chunk || got_inprog { 1 } else { 5 }) {
                if let Some(ms) = real_measure(&pair) {
                    best = (best.0.min(ms[0].0), best.1.min(ms[0].1), best.2.min(ms[0].2));
                }
            }
            let mut out = vec![];
            if is_chunk && best.0 < 0.030 {
                out.push(Violation::new("30ms-after-data-chunk", "real-clock", "real clock", case.clone(), 0));
            }
            if got_inprog && best.1 < 0.100 {
                out.push(Violation::new("100ms-after-in-progress-report", "real-clock", "real clock", case.clone(), 0));
            }
            if !is_chunk && !got_inprog && best.2 >= 0.030 && best.2 != f64::MAX {
                out.push(Violation::new("others-not-delayed", "real-clock", "real clock", case.clone(), 0));
            }
            Ok(out)
        }
        Some("real-slow") => {
            let m = msg_from_json(&case["m"]);
            let r = rd(&case["r"]);
            let (vs, _) = slow_port_violations(&m, &r);
            Ok(vs.into_iter().map(|(c, k, d)| Violation::new(c, k, d, case.clone(), 0)).collect())
        }
        _ => Err("unknown case kind".into()),
    }
}
