//! C19 — sign-type configuration blocks are self-consistent and decoding them is total (E1).

use flipdot_core::{Address, ChunkCount, Data, Message, Offset, Operation, Page, PageFlipStyle, PageId, SignType, SignTypeError, State};
use flipdot_testing::VirtualSign;
use serde_json::{json, Value};

use crate::refmodel::{padded, SIGN_TYPES};
use crate::report::{Acc, Ctx, Report, Violation};
use crate::util::{catch, hex, par_range, unhex};

const ID: &str = "C19";

type V = (&'static str, String, String);

/// Per-type consistency of block, dimensions, and what a virtual sign derives from the block.
pub fn check_type(i: usize) -> Vec<V> {
    let (t, fam, id, w, h) = SIGN_TYPES[i];
    let name = format!("{:?}", t);
    let r = catch(|| {
        let mut out: Vec<V> = vec![];
        let b = t.to_bytes();
        if b.len() != 16 {
            out.push(("block-16-bytes", name.clone(), format!("{} block has {} bytes", name, b.len())));
            return out;
        }
        match SignType::from_bytes(b) {
            Ok(back) if back == t => {}
            other => out.push(("block-roundtrip", name.clone(), format!("{} block decodes to {:?}", name, other.map_err(|e| e.to_string())))),
        }
        if (b[0], b[1]) != (fam, id) {
            out.push(("family-id", name.clone(), format!("{} block starts {:02X} {:02X}, table says {:02X} {:02X}", name, b[0], b[1], fam, id)));
        }
        if t.dimensions() != (w, h) {
            out.push(("dimensions-table", name.clone(), format!("{} reports {:?}, table says {}x{}", name, t.dimensions(), w, h)));
        }
        let (dw, dh) = t.dimensions();
        match b[0] {
            0x04 => {
                let sum: u32 = b[5..9].iter().map(|&x| x as u32).sum();
                if b[4] as u32 != dh {
                    out.push(("max3000-fields", format!("{}:height", name), format!("{}: height byte {} vs dimensions height {}", name, b[4], dh)));
                }
                if sum != dw {
                    out.push(("max3000-fields", format!("{}:width-sum", name), format!("{}: panel widths sum to {} vs dimensions width {}", name, sum, dw)));
                }
                if b[9] as u32 != ((dh + 7) / 8) * 8 {
                    out.push(("max3000-fields", format!("{}:bits-per-column", name), format!("{}: bits-per-column byte {} vs 8*ceil({}/8)", name, b[9], dh)));
                }
            }
            0x08 => {
                if b[5] as u32 != dh {
                    out.push(("horizon-fields", format!("{}:height", name), format!("{}: height byte {} vs {}", name, b[5], dh)));
                }
                if b[7] as u32 != dw {
                    out.push(("horizon-fields", format!("{}:width", name), format!("{}: width byte {} vs {}", name, b[7], dw)));
                }
                let ab = b[8] as u32 * b[10] as u32 + b[9] as u32 * b[11] as u32;
                if ab != b[7] as u32 {
                    out.push(("horizon-fields", format!("{}:A1B1+A2B2", name), format!("{}: A1*B1+A2*B2 = {} vs width byte {}", name, ab, b[7])));
                }
            }
            f => out.push(("family-id", name.clone(), format!("{}: unknown family {:02X}", name, f))),
        }
        // the virtual sign derives the same from the block: it must store exactly a page of T's size
        for auto in [false, true] {
            let own = Address(3);
            let mut sizes: Vec<(u32, u32)> = vec![(dw, dh)];
            for (a, c) in [(1i64, 0i64), (-1, 0), (0, 8), (0, -8), (2, 0), (-28, 0), (-30, 0)] {
                let (nw, nh) = (dw as i64 + a, dh as i64 + c);
                if nw > 0 && nh > 0 && padded(nw as u64, nh as u64) != padded(dw as u64, dh as u64) {
                    sizes.push((nw as u32, nh as u32));
                }
            }
            for (k, &(pw, ph)) in sizes.iter().enumerate() {
                let mut s = VirtualSign::new(own, if auto { PageFlipStyle::Automatic } else { PageFlipStyle::Manual });
                let _ = s.process_message(&Message::RequestOperation(own, Operation::ReceiveConfig));
                let _ = s.process_message(&Message::SendData(Offset(0), Data::try_new(b).unwrap()));
                let _ = s.process_message(&Message::DataChunksSent(ChunkCount(1)));
                if s.state() != State::ConfigReceived || s.sign_type() != Some(t) {
                    out.push(("virtual-sign-derivation", format!("{}:configure", name), format!("{}: after configuring, state {:?} type {:?}", name, s.state(), s.sign_type())));
                    break;
                }
                let _ = s.process_message(&Message::RequestOperation(own, Operation::ReceivePixels));
                let page = Page::new(PageId(k as u8), pw, ph);
                let mut n = 0u16;
                for (ci, chunk) in page.as_bytes().chunks(16).enumerate() {
                    let _ = s.process_message(&Message::SendData(Offset((ci * 16) as u16), Data::try_new(chunk).unwrap()));
                    n += 1;
                }
                let _ = s.process_message(&Message::DataChunksSent(ChunkCount(n)));
                let _ = s.process_message(&Message::PixelsComplete(own));
                let stored = s.pages().len();
                if k == 0 {
                    let ok = stored == 1 && s.pages()[0].width() == dw && s.pages()[0].height() == dh && s.pages()[0] == page;
                    if !ok {
                        out.push(("virtual-sign-derivation", format!("{}:own-size-page-not-stored", name), format!("{}: a {}x{} page was sent, the virtual sign holds {} page(s) {:?}", name, pw, ph, stored, s.pages().iter().map(|p| (p.width(), p.height())).collect::<Vec<_>>())));
                    }
                } else if s.pages().iter().any(|p| (p.width(), p.height()) != (dw, dh) || p.as_bytes().len() as u64 != padded(dw as u64, dh as u64)) {
                    // whether data of another size is dropped, or cut to the sign's own size, is not this property's
                    // business; a page held with dimensions other than the type's means the derivation differs
                    out.push(("virtual-sign-derivation", format!("{}:other-size-page-stored", name), format!("{}: a page of the different size {}x{} ({} bytes) was stored as {:?}", name, pw, ph, page.as_bytes().len(), s.pages().iter().map(|p| (p.width(), p.height())).collect::<Vec<_>>())));
                }
            }
        }
        out
    });
    match r {
        Ok(v) => v,
        Err(p) => vec![("no-panic", p.class(), format!("{}: panicked: {} at {}", name, p.message, p.location))],
    }
}

/// Block A delivered in a configuration attempt that fails (wrong count), then block B in the retry, without a reset:
/// the virtual sign must report B and accept exactly a page of B's size.
pub fn check_pair(i: usize, j: usize) -> Vec<V> {
    let (ta, tb) = (SIGN_TYPES[i].0, SIGN_TYPES[j].0);
    let name = format!("{:?}-then-{:?}", ta, tb);
    let r = catch(|| {
        let mut out: Vec<V> = vec![];
        let own = Address(3);
        for variant in 0..2 {
            let mut s = VirtualSign::new(own, PageFlipStyle::Manual);
            let _ = s.process_message(&Message::RequestOperation(own, Operation::ReceiveConfig));
            let _ = s.process_message(&Message::SendData(Offset(0), Data::try_new(ta.to_bytes()).unwrap()));
            if variant == 0 {
                // failed attempt, then retry
                let _ = s.process_message(&Message::DataChunksSent(ChunkCount(7)));
                let _ = s.process_message(&Message::RequestOperation(own, Operation::ReceiveConfig));
                let _ = s.process_message(&Message::SendData(Offset(0), Data::try_new(tb.to_bytes()).unwrap()));
                let _ = s.process_message(&Message::DataChunksSent(ChunkCount(1)));
            } else {
                // two blocks in one conversation
                let _ = s.process_message(&Message::SendData(Offset(0), Data::try_new(tb.to_bytes()).unwrap()));
                let _ = s.process_message(&Message::DataChunksSent(ChunkCount(2)));
            }
            if s.state() != State::ConfigReceived || s.sign_type() != Some(tb) {
                out.push(("virtual-sign-derivation", format!("second-block:{}", if i == j { "same-type" } else { "other-type" }), format!("{} (variant {}): state {:?}, type {:?}", name, variant, s.state(), s.sign_type())));
                continue;
            }
            let (w, h) = tb.dimensions();
            let page = Page::new(PageId(9), w, h);
            let _ = s.process_message(&Message::RequestOperation(own, Operation::ReceivePixels));
            let mut n = 0u16;
            for (ci, chunk) in page.as_bytes().chunks(16).enumerate() {
                let _ = s.process_message(&Message::SendData(Offset((ci * 16) as u16), Data::try_new(chunk).unwrap()));
                n += 1;
            }
            let _ = s.process_message(&Message::DataChunksSent(ChunkCount(n)));
            if !(s.pages().len() == 1 && s.pages()[0] == page) {
                out.push(("virtual-sign-derivation", format!("second-block-size:{}", if i == j { "same-type" } else { "other-type" }), format!("{} (variant {}): a {}x{} page was sent, the sign holds {:?}", name, variant, w, h, s.pages().iter().map(|p| (p.width(), p.height())).collect::<Vec<_>>())));
            }
        }
        out
    });
    match r {
        Ok(v) => v,
        Err(p) => vec![("no-panic", p.class(), format!("{}: panicked: {}", name, p.message))],
    }
}

/// Decoding an arbitrary byte string.
pub fn check_decode(bytes: &[u8]) -> (&'static str, Vec<V>) {
    let want: Result<SignType, bool> = if bytes.len() != 16 {
        Err(true)
    } else {
        match SIGN_TYPES.iter().find(|e| e.1 == bytes[0] && e.2 == bytes[1]) {
            Some(e) => Ok(e.0),
            None => Err(false),
        }
    };
    let r = catch(|| SignType::from_bytes(bytes));
    let mut out = vec![];
    let class;
    match (r, want) {
        (Err(p), _) => {
            class = "panic";
            out.push(("decode-total", p.class(), format!("from_bytes({}) panicked: {}", hex(bytes), p.message)));
        }
        (Ok(Ok(t)), Ok(w)) => {
            class = "accepted";
            if t != w {
                out.push(("decode-accepts-exactly-table", "wrong-type".into(), format!("{} decoded to {:?}, table says {:?}", hex(bytes), t, w)));
            }
        }
        (Ok(Ok(t)), Err(_)) => {
            class = "accepted";
            out.push(("decode-accepts-exactly-table", if bytes.len() != 16 { "accepted-wrong-length".into() } else { "accepted-unknown-family-id".to_string() }, format!("{} ({} bytes) was accepted as {:?}", hex(bytes), bytes.len(), t)));
        }
        (Ok(Err(e)), Ok(w)) => {
            class = "rejected";
            out.push(("decode-accepts-exactly-table", "rejected-supported".into(), format!("{} is the family/id of {:?} but was rejected: {}", hex(bytes), w, e)));
        }
        (Ok(Err(e)), Err(wrong_len)) => {
            class = if wrong_len { "wrong-length" } else { "unknown-config" };
            match (&e, wrong_len) {
                (SignTypeError::WrongConfigLength { expected: 16, actual }, true) if *actual == bytes.len() => {}
                (SignTypeError::UnknownConfig { .. }, false) => {}
                _ => out.push(("decode-error-kind", class.into(), format!("{} ({} bytes): error {:?}", hex(bytes), bytes.len(), e))),
            }
        }
    }
    (class, out)
}

fn tail(variant: u64, n: usize) -> Vec<u8> {
    (0..n)
        .map(|j| match variant {
            0 => 0x00,
            1 => 0xFF,
            2 => (j as u8).wrapping_mul(29).wrapping_add(1),
            _ => 0x80 >> (j % 8),
        })
        .collect()
}

pub fn run(ctx: &Ctx) -> Report {
    let mut rep = Report::new(ctx);
    let thorough = ctx.tier.thorough();
    rep.rule = "all 11 sign types (block fields vs dimensions, block round trip, and a real VirtualSign configured with the block must store exactly a page of the type's size and reject neighbouring sizes); \
                all 65536 (family,id) pairs x 4 fills of the other 14 bytes; every length 0..=600 and lengths = 16 mod 256 / mod 65536 up to 131088 x fills x leading bytes of each real block; for every ordered pair of types a failed configuration attempt with A followed by a retry with B (the sign must derive B's size); single-byte variations of every byte of every real block. \
                Non-trivial = 16-byte strings (they reach the family/id decision) and the per-type checks; distinct by bytes"
        .into();
    rep.trusted_base = vec!["refmodel::SIGN_TYPES (literal table type <-> family/id <-> w x h)".into()];
    for i in 0..11 {
        rep.evaluations += 1;
        rep.distinct_nontrivial += 1;
        for (clause, class, detail) in check_type(i) {
            rep.violation(Violation::new(clause, class, detail, json!({"kind": "type", "index": i}), i as u64));
        }
    }
    for i in 0..11 {
        for j in 0..11 {
            rep.evaluations += 1;
            rep.distinct_nontrivial += 1;
            for (clause, class, detail) in check_pair(i, j) {
                rep.violation(Violation::new(clause, class, detail, json!({"kind": "pair", "a": i, "b": j}), 20 + (i * 11 + j) as u64));
            }
        }
    }
    let fills = if thorough { 4 } else { 2 };
    let n = 65536u64 * fills;
    let accs = par_range(n, 2048, Acc::default, |acc, i| {
        let fi = i / 65536;
        let mut b = vec![((i % 65536) >> 8) as u8, (i % 256) as u8];
        b.extend(tail(fi, 14));
        acc.evals += 1;
        let (class, vs) = check_decode(&b);
        acc.outcomes.add(class);
        acc.nontrivial_fp.push(crate::util::fnv(&b));
        for (clause, cl, detail) in vs {
            acc.violation(ID, Violation::new(clause, cl, detail, json!({"kind": "bytes", "bytes": hex(&b)}), 100 + i));
        }
    });
    let mut all = Acc::default();
    for a in accs {
        all.merge(ID, a);
    }
    // lengths 0..=40 x fills x leading bytes of each real block (and of an unknown one)
    let mut leads: Vec<Vec<u8>> = SIGN_TYPES.iter().map(|e| e.0.to_bytes().to_vec()).collect();
    leads.push(vec![0x04, 0x00]);
    leads.push(vec![]);
    let mut k = 0u64;
    // every length 0..=600, and lengths congruent to 16 modulo 256 / 65536 (a length check done in a narrower integer)
    let mut lens: Vec<usize> = (0..=600).collect();
    for k in 3..=40usize {
        lens.push(16 + 256 * k);
    }
    lens.extend([65535, 65536, 65536 + 16, 65536 + 272, 70000, 16 + 256 * 256 * 2]);
    for l in lens {
        for f in 0..3u64 {
            if l > 40 && f > 0 {
                continue;
            }
            for lead in &leads {
                let mut b = tail(f, l);
                for (j, &x) in lead.iter().enumerate() {
                    if j < l {
                        b[j] = x;
                    }
                }
                all.evals += 1;
                k += 1;
                let (class, vs) = check_decode(&b);
                all.outcomes.add(class);
                if l == 16 {
                    all.nontrivial_fp.push(crate::util::fnv(&b));
                }
                for (clause, cl, detail) in vs {
                    all.violation(ID, Violation::new(clause, cl, detail, json!({"kind": "bytes", "bytes": hex(&b)}), (1 << 30) + k));
                }
            }
        }
    }
    // every single-byte variation of every real block: only bytes 0 and 1 may matter
    for (ti, e) in SIGN_TYPES.iter().enumerate() {
        let base = e.0.to_bytes().to_vec();
        for pos in 0..16 {
            for v in 0..=255u8 {
                if !thorough && pos >= 2 && v % 5 != 0 && v != 0xFF && v != 1 {
                    continue;
                }
                let mut b = base.clone();
                b[pos] = v;
                all.evals += 1;
                let (class, vs) = check_decode(&b);
                all.outcomes.add(class);
                all.nontrivial_fp.push(crate::util::fnv(&b));
                for (clause, cl, detail) in vs {
                    all.violation(ID, Violation::new(clause, format!("{}:byte{}", cl, if pos < 2 { "0-1" } else { "2-15" }), detail, json!({"kind": "bytes", "bytes": hex(&b)}), (2 << 30) + (ti * 4096 + pos * 256 + v as usize) as u64));
                }
            }
        }
    }
    all.samples.push(json!({"block": hex(SignType::HorizonFront140x16.to_bytes()), "type": "HorizonFront140x16", "A1*B1+A2*B2": 1 * 20 + 3 * 40, "width_byte": 0x8C}));
    all.samples.push(json!({"bytes": "04 47 + 14 x FF", "expected": "accepted as Max3000Front112x16 (only family and id decide)"}));
    all.samples.push(json!({"bytes": "15 bytes of a real block", "expected": "WrongConfigLength{16,15}"}));
    let nt = rep.absorb(all);
    rep.states = nt + 11 + 121;
    rep.distinct_nontrivial = nt + 11 + 121;
    rep.transitions = rep.evaluations;
    for c in ["accepted", "wrong-length", "unknown-config"] {
        rep.guard(&format!("class-{}", c), rep.outcomes.get(c) > 0, format!("{}", rep.outcomes.get(c)));
    }
    rep
}

pub fn replay(_ctx: &Ctx, case: &Value) -> Result<Vec<Violation>, String> {
    match case["kind"].as_str() {
        Some("type") => Ok(check_type(case["index"].as_u64().ok_or("index")? as usize).into_iter().map(|(c, k, d)| Violation::new(c, k, d, case.clone(), 0)).collect()),
        Some("pair") => Ok(check_pair(case["a"].as_u64().ok_or("a")? as usize, case["b"].as_u64().ok_or("b")? as usize).into_iter().map(|(c, k, d)| Violation::new(c, k, d, case.clone(), 0)).collect()),
        Some("bytes") => {
            let b = unhex(case["bytes"].as_str().ok_or("bytes")?);
            let (_, vs) = check_decode(&b);
            // signature classes of the single-byte sweep carry a position suffix; accept both forms
            let mut out = vec![];
            for (c, k, d) in vs {
                out.push(Violation::new(c, k.clone(), d.clone(), case.clone(), 0));
                out.push(Violation::new(c, format!("{}:byte0-1", k), d.clone(), case.clone(), 0));
                out.push(Violation::new(c, format!("{}:byte2-15", k), d, case.clone(), 0));
            }
            Ok(out)
        }
        _ => Err("unknown case kind".into()),
    }
}
