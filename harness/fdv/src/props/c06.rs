//! C06 — page pixel operations change exactly the addressed pixel and nothing else
//! (E1 for single operations on every start page; E2 closure over all operation sequences on tiny pages).

use flipdot_core::{Page, PageId};
use serde_json::{json, Value};

use crate::bfs::{bfs, replay_path, Step, System};
use crate::refmodel::{bytes_per_col, data_end, padded, SIGN_TYPES};
use crate::report::{Acc, Ctx, Report, Violation};
use crate::util::{catch, par_range};

const ID: &str = "C06";

/// Start page kinds: 0 = Page::new; 1..=3 = from_bytes over a BORROWED buffer with header [id,AA,BB,CC],
/// padding 5A and data all-00 / all-FF / position fill (so unused high bits are set in 2 and 3);
/// 4 = from_bytes over an OWNED copy of kind 3.
pub const START_KINDS: usize = 5;

fn raw_bytes(kind: usize, id: u8, w: u32, h: u32) -> Vec<u8> {
    let (wl, hl) = (w as u64, h as u64);
    let mut v = vec![id, 0xAA, 0xBB, 0xCC];
    let de = data_end(wl, hl) as usize;
    for j in 4..de {
        v.push(match kind {
            1 => 0x00,
            2 => 0xFF,
            _ => ((j * 37 + 11) % 256) as u8,
        });
    }
    v.resize(padded(wl, hl) as usize, 0x5A);
    v
}

fn start_page(kind: usize, id: u8, w: u32, h: u32) -> (Page<'static>, Option<&'static [u8]>) {
    match kind {
        0 => (Page::new(PageId(id), w, h), None),
        4 => (Page::from_bytes(w, h, raw_bytes(3, id, w, h)).expect("harness builds a right-sized buffer"), None),
        k => {
            let leaked: &'static [u8] = Box::leak(raw_bytes(k, id, w, h).into_boxed_slice());
            (Page::from_bytes(w, h, leaked).expect("harness builds a right-sized buffer"), Some(leaked))
        }
    }
}

/// Observables the statement lists, extracted from a page through the public API only.
#[derive(Clone, PartialEq, Eq, Debug)]
struct Obs {
    id: u8,
    w: u32,
    h: u32,
    len: usize,
    padding: Vec<u8>,
    pixels: Vec<bool>,
}

fn observe(p: &Page<'_>) -> Obs {
    let (w, h) = (p.width(), p.height());
    let de = data_end(w as u64, h as u64) as usize;
    let mut pixels = Vec::with_capacity((w * h) as usize);
    for x in 0..w {
        for y in 0..h {
            pixels.push(p.get_pixel(x, y));
        }
    }
    Obs { id: p.id().0, w, h, len: p.as_bytes().len(), padding: p.as_bytes()[de.min(p.as_bytes().len())..].to_vec(), pixels }
}

fn diff_obs(before: &Obs, after: &Obs, changed: Option<(u32, u32, bool)>, all: Option<bool>) -> Option<(String, String)> {
    if after.id != before.id {
        return Some(("id-changed".into(), format!("id {} -> {}", before.id, after.id)));
    }
    if (after.w, after.h) != (before.w, before.h) {
        return Some(("dimensions-changed".into(), format!("{}x{} -> {}x{}", before.w, before.h, after.w, after.h)));
    }
    if after.len != before.len {
        return Some(("length-changed".into(), format!("{} -> {} bytes", before.len, after.len)));
    }
    if after.padding != before.padding {
        return Some(("padding-changed".into(), format!("padding {:02X?} -> {:02X?}", before.padding, after.padding)));
    }
    let h = before.h;
    for (i, (&b, &a)) in before.pixels.iter().zip(after.pixels.iter()).enumerate() {
        let (x, y) = (i as u32 / h.max(1), i as u32 % h.max(1));
        let want = match (changed, all) {
            (Some((cx, cy, v)), _) if (cx, cy) == (x, y) => v,
            (_, Some(v)) => v,
            _ => b,
        };
        if a != want {
            let cls = match (changed, all) {
                (Some((cx, cy, _)), _) if (cx, cy) == (x, y) => "target-pixel-wrong",
                (_, Some(_)) => "set-all-missed-pixel",
                _ => "other-pixel-changed",
            };
            return Some((cls.into(), format!("pixel ({},{}) reads {} but must read {}", x, y, a, want)));
        }
    }
    None
}

/// Single operations from one start page. Returns (evaluations, violations).
pub fn check_start(kind: usize, id: u8, w: u32, h: u32) -> (u64, Vec<(&'static str, String, String)>) {
    let mut evals = 0u64;
    let mut out: Vec<(&'static str, String, String)> = vec![];
    let built = catch(|| {
        let (p, src) = start_page(kind, id, w, h);
        let o = observe(&p);
        (p, src, o)
    });
    let (start, src, before) = match built {
        Ok(x) => x,
        Err(p) => return (1, vec![("in-bounds-never-panics", p.class(), format!("building/reading start page kind {} {}x{} panicked: {}", kind, w, h, p.message))]),
    };
    let src_copy = src.map(|s| s.to_vec());
    let desc = format!("start kind {} id {} {}x{}", kind, id, w, h);
    // (a) in-bounds set/clear of every pixel
    'outer: for x in 0..w {
        for y in 0..h {
            for v in [true, false] {
                evals += 1;
                let r = catch(|| {
                    let mut p = start.clone();
                    p.set_pixel(x, y, v);
                    observe(&p)
                });
                match r {
                    Err(pn) => {
                        out.push(("in-bounds-never-panics", pn.class(), format!("{}: set_pixel({},{},{}) panicked: {}", desc, x, y, v, pn.message)));
                        break 'outer;
                    }
                    Ok(after) => {
                        if let Some((cls, d)) = diff_obs(&before, &after, Some((x, y, v)), None) {
                            out.push(("set-pixel-local", format!("{}:{}", if kind == 0 { "new" } else if kind == 4 { "owned-bytes" } else { "borrowed-bytes" }, cls), format!("{}: after set_pixel({},{},{}): {}", desc, x, y, v, d)));
                            break 'outer;
                        }
                    }
                }
            }
        }
    }
    // (b) out-of-bounds coordinates must unwind and leave the bytes identical
    let hb = (bytes_per_col(h as u64) * 8) as u32;
    let mut xs = vec![w, w.wrapping_add(1), u32::MAX];
    let mut ys = vec![h, h.wrapping_add(1), hb, hb.wrapping_add(7), u32::MAX];
    xs.dedup();
    ys.sort();
    ys.dedup();
    let inx: Vec<u32> = if w > 0 { vec![0, w - 1] } else { vec![] };
    let iny: Vec<u32> = if h > 0 { vec![0, h - 1] } else { vec![] };
    let mut coords: Vec<(u32, u32)> = vec![];
    for &x in &xs {
        for &y in iny.iter().chain(ys.iter()) {
            coords.push((x, y));
        }
    }
    for &y in &ys {
        if y < h {
            continue;
        }
        for &x in &inx {
            coords.push((x, y));
        }
    }
    for (x, y) in coords {
        if x < w && y < h {
            continue;
        }
        for op in 0..3 {
            evals += 1;
            let mut p = start.clone();
            let r = catch(|| match op {
                0 => {
                    let _ = p.get_pixel(x, y);
                }
                1 => p.set_pixel(x, y, true),
                _ => p.set_pixel(x, y, false),
            });
            let opn = ["get_pixel", "set_pixel(true)", "set_pixel(false)"][op];
            let which = if x >= w && y >= h { "x-and-y" } else if x >= w { "x" } else if y < hb { "y-within-last-column-byte" } else { "y-beyond-column" };
            match r {
                Ok(()) => {
                    let touched = p.as_bytes() != start.as_bytes();
                    out.push(("out-of-bounds-panics", format!("{}:{}:{}", opn, which, if touched { "bytes-changed" } else { "returned" }), format!("{}: {} at ({},{}) did not panic{}", desc, opn, x, y, if touched { " and changed the page bytes" } else { "" })));
                }
                Err(_) => {
                    if p.as_bytes() != start.as_bytes() {
                        out.push(("out-of-bounds-panics", format!("{}:{}:bytes-changed-before-panic", opn, which), format!("{}: {} at ({},{}) panicked but the page bytes changed", desc, opn, x, y)));
                    }
                }
            }
        }
        if out.len() > 6 {
            break;
        }
    }
    // (c) set_all_pixels
    for v in [true, false] {
        evals += 1;
        let r = catch(|| {
            let mut p = start.clone();
            p.set_all_pixels(v);
            observe(&p)
        });
        match r {
            Err(pn) => out.push(("in-bounds-never-panics", pn.class(), format!("{}: set_all_pixels({}) panicked: {}", desc, v, pn.message))),
            Ok(after) => {
                if let Some((cls, d)) = diff_obs(&before, &after, None, Some(v)) {
                    out.push(("set-all", format!("{}:{}", if kind == 0 { "new" } else if kind == 4 { "owned-bytes" } else { "borrowed-bytes" }, cls), format!("{}: after set_all_pixels({}): {}", desc, v, d)));
                }
            }
        }
    }
    if let (Some(s), Some(c)) = (src, src_copy) {
        if s != &c[..] {
            out.push(("borrowed-source-untouched", "changed".into(), format!("{}: the borrowed source buffer was modified", desc)));
        }
    }
    (evals, out)
}

// ---- (d) closure over all operation sequences on tiny pages --------------------------------------------

pub struct PageSys {
    pub kind: usize,
    pub w: u32,
    pub h: u32,
}

#[derive(Clone, PartialEq, Eq, Hash)]
pub struct PState {
    page: Page<'static>,
    grid: Vec<bool>,
}

impl PageSys {
    fn op(&self, a: usize) -> (Option<(u32, u32)>, bool) {
        let n = (self.w * self.h) as usize;
        if a < 2 * n {
            let i = (a / 2) as u32;
            (Some((i / self.h, i % self.h)), a % 2 == 0)
        } else {
            (None, a == 2 * n)
        }
    }
}

impl System for PageSys {
    type State = PState;
    fn name(&self) -> String {
        format!("page-closure/{}x{}/start-kind-{}", self.w, self.h, self.kind)
    }
    fn initial(&self) -> PState {
        let (page, _) = start_page(self.kind, 9, self.w, self.h);
        let grid = observe(&page).pixels;
        PState { page, grid }
    }
    fn n_actions(&self) -> usize {
        2 * (self.w * self.h) as usize + 2
    }
    fn within_bounds(&self, _s: &PState) -> bool {
        true
    }
    fn action_json(&self, a: usize) -> Value {
        match self.op(a) {
            (Some((x, y)), v) => json!(format!("set_pixel({},{},{})", x, y, v)),
            (None, v) => json!(format!("set_all_pixels({})", v)),
        }
    }
    fn config_json(&self) -> Value {
        json!({"system": "page", "kind": self.kind, "w": self.w, "h": self.h})
    }
    fn step(&self, s: &PState, a: usize) -> Step<PState> {
        let (xy, v) = self.op(a);
        let mut grid = s.grid.clone();
        match xy {
            Some((x, y)) => grid[(x * self.h + y) as usize] = v,
            None => grid.iter_mut().for_each(|g| *g = v),
        }
        let before = observe(&s.page);
        let r = catch(|| {
            let mut p = s.page.clone();
            match xy {
                Some((x, y)) => p.set_pixel(x, y, v),
                None => p.set_all_pixels(v),
            }
            let o = observe(&p);
            (p, o)
        });
        match r {
            Err(pn) => Step { next: None, violations: vec![("in-bounds-never-panics".into(), pn.class(), format!("{} panicked: {}", self.action_json(a), pn.message))], tags: 0, outcome: "panic" },
            Ok((p, after)) => {
                let mut viol = vec![];
                if after.pixels != grid {
                    viol.push(("sequence-matches-grid-model".into(), if xy.is_some() { "set-pixel".to_string() } else { "set-all".to_string() }, format!("after {} the pixels read {:?} but the grid model says {:?}", self.action_json(a), after.pixels, grid)));
                }
                if after.id != before.id || after.padding != before.padding || after.len != before.len || (after.w, after.h) != (before.w, before.h) {
                    viol.push(("sequence-keeps-id-size-padding".into(), if xy.is_some() { "set-pixel".to_string() } else { "set-all".to_string() }, format!("after {}: id/size/length/padding changed ({:?} -> {:?})", self.action_json(a), (before.id, before.len, &before.padding), (after.id, after.len, &after.padding))));
                }
                let bad = !viol.is_empty();
                let changed = p != s.page;
                Step { next: if bad { None } else { Some(PState { page: p, grid }) }, violations: viol, tags: 0, outcome: if changed { "changed" } else { "no-op" } }
            }
        }
    }
}

pub fn run(ctx: &Ctx) -> Report {
    let mut rep = Report::new(ctx);
    let thorough = ctx.tier.thorough();
    rep.rule = "E1: for every size of the box (w 0..=9 x h 0..=17, the 11 real sizes, 33x33) x 5 start pages (new; borrowed bytes with non-standard header/padding and 00/FF/fill data; owned bytes): \
                every in-bounds set/clear, every listed out-of-bounds coordinate for get/set, set_all true/false, each judged on exactly the listed observables (all pixels, id, size, length, padding). \
                E2: closure of ALL set/clear/set-all sequences on tiny pages to the fixed point, in lock-step with a Vec<bool> grid. Non-trivial = operations on pages with pixels; distinct = (start page, operation) pairs + closure states"
        .into();
    rep.trusted_base = vec!["observe()/diff_obs() (reads the page only through get_pixel/id/width/height/as_bytes)".into(), "Vec<bool> grid model".into(), "bfs.rs".into()];
    let mut sizes: Vec<(u32, u32)> = vec![];
    let (bw, bh) = if thorough { (9, 17) } else { (6, 10) };
    for w in 0..=bw {
        for h in 0..=bh {
            sizes.push((w, h));
        }
    }
    if !thorough {
        sizes.extend([(9, 17), (2, 16), (3, 15), (1, 17), (0, 17), (9, 0)]);
    }
    for e in SIGN_TYPES.iter() {
        if thorough || (e.3 as u64 * e.4 as u64) <= 700 {
            sizes.push((e.3, e.4));
        }
    }
    sizes.push((33, 33));
    // tall and wide pages (after seed C06-w7-1: y narrowed to 8 bits aliases rows >= 256): coordinates beyond 2^8 and 2^11 in either direction
    sizes.extend([(1, 257), (2, 300), (1, 2049), (1, 4100), (257, 1), (300, 2), (2049, 1), (4100, 1), (17, 259)]);
    let jobs: Vec<(usize, u32, u32)> = sizes.iter().flat_map(|&(w, h)| (0..START_KINDS).map(move |k| (k, w, h))).collect();
    let accs = par_range(jobs.len() as u64, 1, Acc::default, |acc, i| {
        let (k, w, h) = jobs[i as usize];
        let id = (i % 251) as u8;
        let (evals, vs) = check_start(k, id, w, h);
        acc.evals += evals;
        acc.outcomes.add(["start:new", "start:borrowed-00", "start:borrowed-FF", "start:borrowed-fill", "start:owned-fill"][k]);
        if w > 0 && h > 0 {
            acc.nontrivial_fp.extend((0..evals).map(|e| (i << 32) | e));
        }
        for (clause, class, detail) in vs {
            acc.violation(ID, Violation::new(clause, class, detail, json!({"kind": "start", "start_kind": k, "id": id, "w": w, "h": h}), ((w as u64 * h as u64) << 24) | i));
        }
    });
    let mut all = Acc::default();
    for a in accs {
        all.merge(ID, a);
    }
    all.samples.push(json!({"start": "borrowed bytes [id,AA,BB,CC | fill data | 5A padding]", "op": "set_pixel(2,8,true) on 3x9", "judged": "pixel (2,8) reads true, every other pixel as before, id/size/length/padding unchanged"}));
    all.samples.push(json!({"out_of_bounds": "get_pixel(0,7) on 90x7 (y inside the column's last byte) must panic and leave the bytes identical"}));
    let nt = rep.absorb(all);
    rep.states = nt;
    rep.transitions = rep.evaluations;
    rep.set("sizes", json!(sizes.len()));
    rep.set("start_pages", json!(jobs.len()));

    // closures
    let tiny: Vec<(u32, u32)> = if thorough { vec![(1, 1), (2, 2), (3, 3), (1, 9), (2, 7), (2, 9), (4, 4), (1, 17)] } else { vec![(1, 1), (2, 2), (3, 3), (1, 9), (2, 7)] };
    let budget = ctx.clone();
    let deadline = move || budget.over_budget();
    let mut runs = vec![];
    for &(w, h) in &tiny {
        for kind in [0usize, 2, 3] {
            let sys = PageSys { kind, w, h };
            let res = bfs(&sys, 3_000_000, &deadline);
            rep.states += res.stats.states;
            rep.transitions += res.stats.transitions;
            rep.distinct_nontrivial += res.stats.states.saturating_sub(1);
            rep.outcomes.merge(&res.stats.outcomes);
            if let Some(c) = &res.stats.capped {
                rep.cap(format!("{}: {}", sys.name(), c));
            }
            let expect = 1u64 << (w * h);
            runs.push(json!({"run": sys.name(), "states": res.stats.states, "transitions": res.stats.transitions, "depth": res.stats.depth, "pixel_states_2^n": expect}));
            if res.stats.capped.is_none() && res.violations.is_empty() && res.stats.states < expect {
                rep.guard(&format!("closure-{}x{}-kind{}-reaches-all-pixel-states", w, h, kind), false, format!("{} < 2^{}", res.stats.states, w * h));
            }
            for v in res.violations {
                rep.violation(v);
            }
            if runs.len() == 1 {
                for s in res.sample_paths.into_iter().take(1) {
                    rep.sample(s);
                }
            }
        }
    }
    rep.set("closure_runs", Value::Array(runs));
    rep.guard("all-start-kinds", (0..5).all(|k| rep.outcomes.get(["start:new", "start:borrowed-00", "start:borrowed-FF", "start:borrowed-fill", "start:owned-fill"][k]) > 0), "all five start page kinds exercised");
    rep.assumptions.push("header bytes 1..3 and unused high bits of the last byte of a column are recorded as don't-care: the statement does not list them".into());
    rep
}

pub fn replay(_ctx: &Ctx, case: &Value) -> Result<Vec<Violation>, String> {
    match case["kind"].as_str() {
        Some("start") => {
            let (_, vs) = check_start(case["start_kind"].as_u64().ok_or("start_kind")? as usize, case["id"].as_u64().ok_or("id")? as u8, case["w"].as_u64().ok_or("w")? as u32, case["h"].as_u64().ok_or("h")? as u32);
            Ok(vs.into_iter().map(|(c, k, d)| Violation::new(c, k, d, case.clone(), 0)).collect())
        }
        Some("path") => {
            let sysj = &case["system"];
            let sys = PageSys { kind: sysj["kind"].as_u64().ok_or("kind")? as usize, w: sysj["w"].as_u64().ok_or("w")? as u32, h: sysj["h"].as_u64().ok_or("h")? as u32 };
            let path: Vec<usize> = case["actions"].as_array().ok_or("actions")?.iter().map(|x| x.as_u64().unwrap() as usize).collect();
            Ok(replay_path(&sys, &path)?.into_iter().map(|(c, k, d)| Violation::new(&c, k, d, case.clone(), 0)).collect())
        }
        _ => Err("unknown case kind".into()),
    }
}
