//! C17 — the serial transport is transparent: over the wire equals directly on the bus
//! (E2 differential BFS: the same actions drive Sign -> SerialSignBus -> byte pipe -> Odk -> VirtualSignBus and an
//! identical VirtualSignBus directly, in lock-step; plus exhaustive fault injection at the bridge).

use std::cell::RefCell;
use std::collections::VecDeque;
use std::io::{self, Read, Write};
use std::rc::Rc;
use std::time::Duration;

use flipdot::Sign;
use flipdot_core::{Address, Data, Frame, Message, MsgType, Offset, Page, SignBus, SignType, State};
use flipdot_serial::SerialSignBus;
use flipdot_testing::{Odk, OdkError, VirtualSign, VirtualSignBus};
use serde_json::{json, Value};
use serial_core::{PortSettings, SerialDevice};

use crate::bfs::{bfs, replay_path, Step, System};
use crate::devices::{new_log, RAns, ScriptIo, ScriptPort, WAns, Line};
use crate::props::c08::page_lists;
use crate::props::c12::absorb_bfs;
use crate::props::c16::{reply_due, replies as reply_lines};
use crate::refmodel::{impl_decode_msg, impl_wire, msg_str, own, SIGN_TYPES};
use crate::refsign::RefSign;
use crate::report::{Acc, Ctx, Report, Violation};
use crate::signsys::{alphabet_r2, flip, hashed_size, Alphabet};
use crate::util::{catch, hex, par_range, show_bytes};

type V = (String, String, String);

#[derive(Default, Debug)]
pub struct Pipe {
    a2b: VecDeque<u8>,
    b2a: VecDeque<u8>,
    /// per bridge call: (line the bridge had to read, messages that reached the bus with their replies, bytes written back, result)
    calls: Vec<BridgeCall>,
    bus_calls: Vec<(Message<'static>, Option<Message<'static>>)>,
}

#[derive(Debug, Clone)]
pub struct BridgeCall {
    pub line: Vec<u8>,
    pub bus_calls: Vec<(Message<'static>, Option<Message<'static>>)>,
    pub written_back: Vec<u8>,
    pub result: Result<(), String>,
}

fn default_settings() -> PortSettings {
    PortSettings { baud_rate: serial_core::Baud9600, char_size: serial_core::Bits7, parity: serial_core::ParityOdd, stop_bits: serial_core::Stop2, flow_control: serial_core::FlowSoftware }
}

pub struct SharedBus {
    bus: Rc<RefCell<VirtualSignBus<'static>>>,
    pipe: Rc<RefCell<Pipe>>,
}

impl SignBus for SharedBus {
    fn process_message<'a>(&mut self, message: Message<'_>) -> Result<Option<Message<'a>>, Box<dyn std::error::Error + Send + Sync>> {
        let m = own(&message);
        let r = self.bus.borrow_mut().process_message(message)?;
        let r2 = r.as_ref().map(|x| own(x));
        self.pipe.borrow_mut().bus_calls.push((m, r2.clone()));
        Ok(r2.map(|x| own(&x)))
    }
}

pub struct PortB {
    pipe: Rc<RefCell<Pipe>>,
    settings: PortSettings,
}

impl Read for PortB {
    fn read(&mut self, buf: &mut [u8]) -> io::Result<usize> {
        let mut p = self.pipe.borrow_mut();
        let mut n = 0;
        while n < buf.len() {
            match p.a2b.pop_front() {
                Some(b) => {
                    buf[n] = b;
                    n += 1;
                }
                None => break,
            }
        }
        Ok(n)
    }
}
impl Write for PortB {
    fn write(&mut self, buf: &[u8]) -> io::Result<usize> {
        self.pipe.borrow_mut().b2a.extend(buf.iter().copied());
        Ok(buf.len())
    }
    fn flush(&mut self) -> io::Result<()> {
        Ok(())
    }
}

macro_rules! serial_device_boilerplate {
    ($t:ty) => {
        impl SerialDevice for $t {
            type Settings = PortSettings;
            fn read_settings(&self) -> serial_core::Result<PortSettings> {
                Ok(self.settings)
            }
            fn write_settings(&mut self, settings: &PortSettings) -> serial_core::Result<()> {
                self.settings = *settings;
                Ok(())
            }
            fn timeout(&self) -> Duration {
                Duration::from_secs(1)
            }
            fn set_timeout(&mut self, _: Duration) -> serial_core::Result<()> {
                Ok(())
            }
            fn set_rts(&mut self, _: bool) -> serial_core::Result<()> {
                Ok(())
            }
            fn set_dtr(&mut self, _: bool) -> serial_core::Result<()> {
                Ok(())
            }
            fn read_cts(&mut self) -> serial_core::Result<bool> {
                Ok(false)
            }
            fn read_dsr(&mut self) -> serial_core::Result<bool> {
                Ok(false)
            }
            fn read_ri(&mut self) -> serial_core::Result<bool> {
                Ok(false)
            }
            fn read_cd(&mut self) -> serial_core::Result<bool> {
                Ok(false)
            }
        }
    };
}
serial_device_boilerplate!(PortB);

pub struct PortA {
    pipe: Rc<RefCell<Pipe>>,
    odk: Rc<RefCell<Odk<PortB, SharedBus>>>,
    settings: PortSettings,
}
serial_device_boilerplate!(PortA);

impl Read for PortA {
    fn read(&mut self, buf: &mut [u8]) -> io::Result<usize> {
        let mut p = self.pipe.borrow_mut();
        let mut n = 0;
        while n < buf.len() {
            match p.b2a.pop_front() {
                Some(b) => {
                    buf[n] = b;
                    n += 1;
                }
                None => break,
            }
        }
        Ok(n)
    }
}
impl Write for PortA {
    fn write(&mut self, buf: &[u8]) -> io::Result<usize> {
        self.pipe.borrow_mut().a2b.extend(buf.iter().copied());
        // the bridge handles one line per call; run it once per complete line now on the wire
        loop {
            let line: Option<Vec<u8>> = {
                let p = self.pipe.borrow();
                p.a2b.iter().position(|&b| b == b'\n').map(|pos| p.a2b.iter().take(pos + 1).copied().collect())
            };
            let Some(line) = line else { break };
            let (bus0, back0) = {
                let p = self.pipe.borrow();
                (p.bus_calls.len(), p.b2a.len())
            };
            let r = self.odk.borrow_mut().process_message();
            let mut p = self.pipe.borrow_mut();
            let bus_calls = p.bus_calls[bus0..].to_vec();
            let written_back: Vec<u8> = p.b2a.iter().skip(back0).copied().collect();
            p.calls.push(BridgeCall { line, bus_calls, written_back, result: r.map_err(|e| format!("{:?}", e)) });
        }
        Ok(buf.len())
    }
    fn flush(&mut self) -> io::Result<()> {
        Ok(())
    }
}

/// The full serial path over a given virtual bus. Returns the controller-side bus and the shared handles.
pub struct Wire {
    pub bus: Rc<RefCell<VirtualSignBus<'static>>>,
    pub pipe: Rc<RefCell<Pipe>>,
    pub serial: Rc<RefCell<SerialSignBus<PortA>>>,
}

pub fn make_wire(vbus: VirtualSignBus<'static>) -> Result<Wire, String> {
    let bus = Rc::new(RefCell::new(vbus));
    let pipe = Rc::new(RefCell::new(Pipe::default()));
    let odk = Odk::try_new(PortB { pipe: pipe.clone(), settings: default_settings() }, SharedBus { bus: bus.clone(), pipe: pipe.clone() }).map_err(|e| format!("Odk::try_new: {}", e))?;
    let port_a = PortA { pipe: pipe.clone(), odk: Rc::new(RefCell::new(odk)), settings: default_settings() };
    let serial = SerialSignBus::try_new(port_a).map_err(|e| format!("SerialSignBus::try_new: {}", e))?;
    Ok(Wire { bus, pipe, serial: Rc::new(RefCell::new(serial)) })
}

/// Judges every bridge call recorded in the pipe: one decoded message in, a frame back iff the bus replied.
fn judge_bridge(pipe: &Pipe, out: &mut Vec<V>) {
    for c in &pipe.calls {
        // "each decoded frame", "a line the bridge cannot decode": the codec is taken as given (Frame::from_bytes)
        match impl_decode_msg(&c.line) {
            None => {}
            Some(Ok(want)) => {
                if c.bus_calls.len() != 1 || c.bus_calls[0].0 != want {
                    out.push(("bridge-forwards-each-frame".into(), format!("{}-bus-calls", c.bus_calls.len().min(2)), format!("bridge read {} but the bus saw {:?}, expected exactly {}", show_bytes(&c.line), c.bus_calls.iter().map(|x| msg_str(&x.0)).collect::<Vec<_>>(), msg_str(&want))));
                    continue;
                }
                match &c.bus_calls[0].1 {
                    Some(reply) => {
                        if c.written_back != impl_wire(reply) {
                            out.push(("bridge-writes-back-iff-replied".into(), "reply-not-written".into(), format!("bus replied {} to {} but the bridge wrote {}", msg_str(reply), show_bytes(&c.line), show_bytes(&c.written_back))));
                        }
                    }
                    None => {
                        if !c.written_back.is_empty() {
                            out.push(("bridge-writes-back-iff-replied".into(), "wrote-without-reply".into(), format!("bus did not reply to {} but the bridge wrote {}", show_bytes(&c.line), show_bytes(&c.written_back))));
                        }
                    }
                }
                if c.result.is_err() {
                    out.push(("bridge-forwards-each-frame".into(), "error-on-valid-frame".into(), format!("bridge returned {:?} for the valid line {}", c.result, show_bytes(&c.line))));
                }
            }
            Some(Err(_)) => {
                if !c.bus_calls.is_empty() || c.result.is_ok() {
                    out.push(("undecodable-line-is-communication-error".into(), "bus-touched-or-ok".into(), format!("undecodable line {}: result {:?}, bus calls {}", show_bytes(&c.line), c.result, c.bus_calls.len())));
                }
            }
        }
    }
}

fn obs(b: &VirtualSignBus<'static>, n: usize) -> Vec<(State, Option<SignType>, Vec<Vec<u8>>)> {
    (0..n).map(|i| (b.sign(i).state(), b.sign(i).sign_type(), b.sign(i).pages().iter().map(|p| p.as_bytes().to_vec()).collect())).collect()
}

// ---------------------------------------------------------------------------------------------------------
// (a) controller level

#[derive(Clone, Copy, Debug, PartialEq, Eq)]
pub enum WOp {
    Configure,
    ConfigureIfNeeded,
    SendPages(usize),
    Show,
    LoadNext,
    ShutDown,
    ConfigureAsOther,
    ConfigureAbsent,
}

pub struct CtlWire {
    pub type_idx: usize,
    pub automatic: bool,
    pub own: u16,
    pub lists: Vec<Vec<Page<'static>>>,
    pub ops: Vec<WOp>,
}

#[derive(Clone, PartialEq, Eq, Hash, Debug)]
pub struct PairState {
    wire: VirtualSignBus<'static>,
    direct: VirtualSignBus<'static>,
}

fn run_op(bus: Rc<RefCell<dyn SignBus>>, op: WOp, own_addr: u16, t: SignType, other: SignType, lists: &[Vec<Page<'static>>]) -> Result<String, String> {
    let sign = Sign::new(bus.clone(), Address(own_addr), t);
    let r = match op {
        WOp::Configure => sign.configure().map(|_| "ok".to_string()),
        WOp::ConfigureIfNeeded => sign.configure_if_needed().map(|_| "ok".to_string()),
        WOp::SendPages(i) => sign.send_pages(lists[i].iter()).map(|s| format!("ok:{:?}", s)),
        WOp::Show => sign.show_loaded_page().map(|_| "ok".to_string()),
        WOp::LoadNext => sign.load_next_page().map(|_| "ok".to_string()),
        WOp::ShutDown => sign.shut_down().map(|_| "ok".to_string()),
        WOp::ConfigureAsOther => Sign::new(bus.clone(), Address(own_addr), other).configure().map(|_| "ok".to_string()),
        WOp::ConfigureAbsent => Sign::new(bus, Address(own_addr ^ 0x0040), t).configure().map(|_| "ok".to_string()),
    };
    r.map_err(|e| format!("{}", e))
}

impl System for CtlWire {
    type State = PairState;
    fn name(&self) -> String {
        format!("wire-vs-direct/controller/{:?}/{}/own-{:04X}", SIGN_TYPES[self.type_idx].0, if self.automatic { "automatic" } else { "manual" }, self.own)
    }
    fn initial(&self) -> PairState {
        let signs = vec![VirtualSign::new(Address(self.own), flip(self.automatic)), VirtualSign::new(Address(self.own ^ 0x0008), flip(!self.automatic))];
        PairState { wire: VirtualSignBus::new(signs.clone()), direct: VirtualSignBus::new(signs) }
    }
    fn n_actions(&self) -> usize {
        self.ops.len()
    }
    fn within_bounds(&self, _s: &PairState) -> bool {
        true
    }
    fn action_json(&self, a: usize) -> Value {
        json!(format!("{:?}", self.ops[a]))
    }
    fn config_json(&self) -> Value {
        json!({"system": "ctl-wire", "type_index": self.type_idx, "automatic": self.automatic, "own": self.own})
    }
    fn step(&self, s: &PairState, a: usize) -> Step<PairState> {
        let op = self.ops[a];
        let t = SIGN_TYPES[self.type_idx].0;
        let other = SIGN_TYPES[(self.type_idx + 4) % 11].0;
        let mut viol: Vec<V> = vec![];
        flipdot_serial::verif_hooks::set_handler(Some(Box::new(|_d| {})));
        let wire = match make_wire(s.wire.clone()) {
            Ok(w) => w,
            Err(e) => return Step { next: None, violations: vec![("setup".into(), "make-wire".into(), e)], tags: 0, outcome: "setup-failed" },
        };
        let direct = Rc::new(RefCell::new(s.direct.clone()));
        let serial: Rc<RefCell<dyn SignBus>> = wire.serial.clone();
        let direct_dyn: Rc<RefCell<dyn SignBus>> = direct.clone();
        let lists = &self.lists;
        let own_addr = self.own;
        let rw = catch(|| run_op(serial, op, own_addr, t, other, lists));
        let rd = catch(|| run_op(direct_dyn, op, own_addr, t, other, lists));
        flipdot_serial::verif_hooks::set_handler(None);
        let desc = format!("{:?} ({:?}, {}) from state {:?}", op, t, if self.automatic { "automatic" } else { "manual" }, s.direct.sign(0).state());
        let (rw, rd) = match (rw, rd) {
            (Ok(a), Ok(b)) => (a, b),
            (a, b) => {
                let p = a.err().or(b.err()).unwrap();
                return Step { next: None, violations: vec![("no-panic".into(), p.class(), format!("{} panicked: {}", desc, p.message))], tags: 0, outcome: "panic" };
            }
        };
        let wire_after = wire.bus.borrow().clone();
        let direct_after = direct.borrow().clone();
        match (&rw, &rd) {
            (Ok(x), Ok(y)) if x == y => {}
            (Err(_), Err(_)) => {}
            _ => viol.push(("succeeds-exactly-when-direct-succeeds".into(), format!("{:?}:wire-{}-direct-{}", op, if rw.is_ok() { "ok" } else { "err" }, if rd.is_ok() { "ok" } else { "err" }), format!("{}: over the wire {:?}, directly {:?}", desc, rw, rd))),
        }
        if obs(&wire_after, 2) != obs(&direct_after, 2) {
            viol.push(("same-state-type-pages".into(), format!("{:?}", op), format!("{}: signs differ afterwards: wire {:?} vs direct {:?}", desc, obs(&wire_after, 2).iter().map(|o| (o.0, o.1, o.2.len())).collect::<Vec<_>>(), obs(&direct_after, 2).iter().map(|o| (o.0, o.1, o.2.len())).collect::<Vec<_>>())));
        }
        judge_bridge(&wire.pipe.borrow(), &mut viol);
        if !wire.pipe.borrow().a2b.is_empty() || (rw.is_ok() && !wire.pipe.borrow().b2a.is_empty()) {
            viol.push(("no-bytes-left-on-the-wire".into(), format!("{:?}", op), format!("{}: {} byte(s) unread by the bridge, {} unread by the controller", desc, wire.pipe.borrow().a2b.len(), wire.pipe.borrow().b2a.len())));
        }
        let tags = (1u64 << crate::signsys::state_index(s.direct.sign(0).state())) | if rd.is_ok() { 1 << 40 } else { 1 << 41 };
        let bad = !viol.is_empty();
        Step { next: if bad { None } else { Some(PairState { wire: wire_after, direct: direct_after }) }, violations: viol, tags, outcome: if rd.is_ok() { "op-ok" } else { "op-err" } }
    }
}

/// A sequence of controller operations through ONE wire (one SerialSignBus, one bridge) and, in parallel, directly
/// on an identical bus: the BFS above builds a fresh wire per step, so anything the serial bus or the bridge carries
/// over from one operation to the next (a remembered chunk, a pending flag) only shows here.
pub fn ctl_seq(sys: &CtlWire, seq: &[usize]) -> Vec<V> {
    let t = SIGN_TYPES[sys.type_idx].0;
    let other = SIGN_TYPES[(sys.type_idx + 4) % 11].0;
    let init = sys.initial();
    flipdot_serial::verif_hooks::set_handler(Some(Box::new(|_d| {})));
    let wire = match make_wire(init.wire.clone()) {
        Ok(w) => w,
        Err(e) => return vec![("setup".into(), "make-wire".into(), e)],
    };
    let direct = Rc::new(RefCell::new(init.direct.clone()));
    let mut viol: Vec<V> = vec![];
    for (k, &a) in seq.iter().enumerate() {
        let op = sys.ops[a];
        let serial: Rc<RefCell<dyn SignBus>> = wire.serial.clone();
        let direct_dyn: Rc<RefCell<dyn SignBus>> = direct.clone();
        let (lists, own_addr) = (&sys.lists, sys.own);
        let rw = catch(|| run_op(serial, op, own_addr, t, other, lists));
        let rd = catch(|| run_op(direct_dyn, op, own_addr, t, other, lists));
        let desc = format!("operation #{} {:?} of the sequence {:?} through one wire ({:?}, {})", k, op, seq.iter().map(|&i| sys.ops[i]).collect::<Vec<_>>(), t, if sys.automatic { "automatic" } else { "manual" });
        let (rw, rd) = match (rw, rd) {
            (Ok(a), Ok(b)) => (a, b),
            (a, b) => {
                let p = a.err().or(b.err()).unwrap();
                viol.push(("no-panic".into(), p.class(), format!("{} panicked: {}", desc, p.message)));
                break;
            }
        };
        match (&rw, &rd) {
            (Ok(x), Ok(y)) if x == y => {}
            (Err(_), Err(_)) => {}
            _ => viol.push(("succeeds-exactly-when-direct-succeeds".into(), format!("sequence:{:?}:wire-{}-direct-{}", op, if rw.is_ok() { "ok" } else { "err" }, if rd.is_ok() { "ok" } else { "err" }), format!("{}: over the wire {:?}, directly {:?}", desc, rw, rd))),
        }
        let (wa, da) = (wire.bus.borrow().clone(), direct.borrow().clone());
        if obs(&wa, 2) != obs(&da, 2) {
            viol.push(("same-state-type-pages".into(), format!("sequence:{:?}", op), format!("{}: signs differ afterwards: wire {:?} vs direct {:?}", desc, obs(&wa, 2).iter().map(|o| (o.0, o.1, o.2.len())).collect::<Vec<_>>(), obs(&da, 2).iter().map(|o| (o.0, o.1, o.2.len())).collect::<Vec<_>>())));
        }
        if !viol.is_empty() {
            break;
        }
    }
    flipdot_serial::verif_hooks::set_handler(None);
    viol
}

// ---------------------------------------------------------------------------------------------------------
// (b) message level

pub struct MsgWire {
    pub alpha: Alphabet,
    pub automatic: bool,
}

#[derive(Clone, PartialEq, Eq, Hash, Debug)]
pub struct MsgState {
    wire: VirtualSignBus<'static>,
    direct: VirtualSignBus<'static>,
    shadow: RefSign,
}

pub fn msg_alphabet() -> Alphabet {
    let mut a = alphabet_r2();
    a.name = "R2+short-chunks".into();
    for (off, d) in [(0u16, vec![]), (16, vec![]), (0, vec![0x01u8]), (16, vec![0xFE]), (32, vec![0x33u8; 254]), (32, vec![0x44u8; 255])] {
        a.msgs.push(Message::SendData(Offset(off), Data::try_new(d).unwrap()));
        a.cfg_only.push(false);
    }
    // Traffic that is not understood but looks like something that is: frames whose type and first data byte are those
    // of a one-byte message (goodbye, hello, start-reset, receive-pixels, pixels-complete) but whose length is wrong, a
    // chunk count with data, an empty type-2 frame, an unassigned type. By the table these are unknown; both paths
    // must forward them unchanged and the sign must ignore them. (Added after seed C17-w5-2: a conversion that folds
    // the longer-data arm into the one-byte arm turns them into resets on the wire only.)
    let own = Address(crate::signsys::OWN);
    for (t, d) in [(2u8, vec![0x55u8, 0x55]), (2, vec![0xFF, 0x00]), (3, vec![0xA6, 0x00]), (3, vec![0xA2, 0x00]), (6, vec![0x00, 0x00]), (1, vec![0x00]), (2, vec![]), (7, vec![0x01])] {
        a.msgs.push(Message::Unknown(Frame::new(own, MsgType(t), Data::try_new(d).unwrap())));
        a.cfg_only.push(false);
    }
    // Deliberately NOT in the alphabet: Message::Unknown wrapping a frame that the protocol table recognises (e.g. type 0
    // with no data). Such a value is not "traffic that is not understood"; the wire canonicalises it into the specific
    // message, so the two paths legitimately differ. (An earlier version offered it and raised a false alarm.)
    a
}

impl System for MsgWire {
    type State = MsgState;
    fn name(&self) -> String {
        format!("wire-vs-direct/messages/{}/{}", self.alpha.name, if self.automatic { "automatic" } else { "manual" })
    }
    fn initial(&self) -> MsgState {
        let signs = vec![VirtualSign::new(Address(crate::signsys::OWN), flip(self.automatic))];
        MsgState { wire: VirtualSignBus::new(signs.clone()), direct: VirtualSignBus::new(signs), shadow: RefSign::new(crate::signsys::OWN, self.automatic) }
    }
    fn n_actions(&self) -> usize {
        self.alpha.msgs.len()
    }
    fn within_bounds(&self, s: &MsgState) -> bool {
        s.shadow.buf.len() <= self.alpha.max_buf && s.shadow.count <= self.alpha.max_count && s.direct.sign(0).pages().len() <= self.alpha.max_pages && s.wire.sign(0).pages().len() <= self.alpha.max_pages && hashed_size(s.wire.sign(0)) <= 1500
    }
    fn action_json(&self, a: usize) -> Value {
        json!(msg_str(&self.alpha.msgs[a]))
    }
    fn config_json(&self) -> Value {
        json!({"system": "msg-wire", "automatic": self.automatic, "alphabet": self.alpha.name})
    }
    fn step(&self, s: &MsgState, a: usize) -> Step<MsgState> {
        let m = &self.alpha.msgs[a];
        let mut viol: Vec<V> = vec![];
        flipdot_serial::verif_hooks::set_handler(Some(Box::new(|_d| {})));
        let wire = match make_wire(s.wire.clone()) {
            Ok(w) => w,
            Err(e) => return Step { next: None, violations: vec![("setup".into(), "make-wire".into(), e)], tags: 0, outcome: "setup-failed" },
        };
        let mut direct = s.direct.clone();
        let rw = catch(|| wire.serial.borrow_mut().process_message(m.clone()).map(|o| o.map(|x| own(&x))).map_err(|e| e.to_string()));
        let rd = catch(|| direct.process_message(m.clone()).map(|o| o.map(|x| own(&x))).map_err(|e| e.to_string()));
        flipdot_serial::verif_hooks::set_handler(None);
        let desc = format!("{} in state {:?}", msg_str(m), s.direct.sign(0).state());
        let (rw, rd) = match (rw, rd) {
            (Ok(a), Ok(b)) => (a, b),
            (a, b) => {
                let p = a.err().or(b.err()).unwrap();
                return Step { next: None, violations: vec![("no-panic".into(), p.class(), format!("{} panicked: {}", desc, p.message))], tags: 0, outcome: "panic" };
            }
        };
        let kind = match m {
            Message::SendData(_, d) => format!("SendData-len{}", match d.get().len() { 0 => "0", 1 => "1", 2..=15 => "2-15", 16 => "16", _ => "17+" }),
            Message::Unknown(f) => format!("Unknown-type{:02X}-len{}", f.message_type().0, f.data().len().min(2)),
            other => crate::refmodel::kind_name(other).to_string(),
        };
        // reply equivalence: a due reply that the bus does not give is a read failure on the wire
        match (&rd, &rw) {
            (Ok(Some(x)), Ok(Some(y))) if x == y => {}
            (Ok(None), Ok(None)) if !reply_due(m) => {}
            (Ok(None), Err(_)) if reply_due(m) => {}
            _ => viol.push(("same-reply".into(), kind.clone(), format!("{}: directly {:?}, over the wire {:?}", desc, rd.as_ref().map(|o| o.as_ref().map(|x| msg_str(x))), rw.as_ref().map(|o| o.as_ref().map(|x| msg_str(x)))))),
        }
        let wire_after = wire.bus.borrow().clone();
        if obs(&wire_after, 1) != obs(&direct, 1) {
            viol.push(("same-state-type-pages".into(), kind.clone(), format!("{}: wire sign is {:?}/{:?}/{} page(s), direct sign is {:?}/{:?}/{} page(s)", desc, wire_after.sign(0).state(), wire_after.sign(0).sign_type(), wire_after.sign(0).pages().len(), direct.sign(0).state(), direct.sign(0).sign_type(), direct.sign(0).pages().len())));
        }
        let before = viol.len();
        judge_bridge(&wire.pipe.borrow(), &mut viol);
        for v in viol[before..].iter_mut() {
            v.1 = format!("{}:{}", v.1, kind);
        }
        if wire.pipe.borrow().calls.len() != 1 {
            viol.push(("bridge-forwards-each-frame".into(), format!("{}-bridge-calls:{}", wire.pipe.borrow().calls.len().min(2), kind), format!("{}: the bridge handled {} lines for one message", desc, wire.pipe.borrow().calls.len())));
        }
        let mut shadow = s.shadow.clone();
        let (_, open) = shadow.step(m);
        shadow.adopt(open, direct.sign(0).state(), direct.sign(0).pages().len());
        let bad = !viol.is_empty();
        Step { next: if bad { None } else { Some(MsgState { wire: wire_after, direct, shadow }) }, violations: viol, tags: 1u64 << crate::signsys::state_index(s.direct.sign(0).state()), outcome: if rd.as_ref().map(|o| o.is_some()).unwrap_or(false) { "reply" } else { "no-reply" } }
    }
}

// ---------------------------------------------------------------------------------------------------------
// (c) faults at the bridge

struct CountingBus {
    calls: Rc<RefCell<u32>>,
    reply: Option<Message<'static>>,
    fail: bool,
}
impl SignBus for CountingBus {
    fn process_message<'a>(&mut self, _m: Message<'_>) -> Result<Option<Message<'a>>, Box<dyn std::error::Error + Send + Sync>> {
        *self.calls.borrow_mut() += 1;
        if self.fail {
            return Err(Box::new(crate::ctlsys::Injected("fdv bus failure".into())));
        }
        Ok(self.reply.as_ref().map(|x| own(x)))
    }
}

/// One bridge call on a scripted port. fault: 0 none, 1 read error at call j, 2 write error (reply), 3 bus error.
pub fn check_bridge(line: &[u8], reply: bool, fault: u8, j: usize) -> (String, Vec<V>) {
    let log = new_log();
    let mut sio = ScriptIo::new(line.to_vec(), log.clone());
    if fault == 1 {
        sio.rscript = vec![RAns::Deliver(usize::MAX); j];
        sio.rscript.push(RAns::Fail(io::ErrorKind::TimedOut));
    }
    if fault == 2 {
        sio.wscript = vec![WAns::Fail(io::ErrorKind::BrokenPipe)];
    }
    let io = Rc::new(RefCell::new(sio));
    let port = ScriptPort::new(io.clone(), Line { baud: serial_core::Baud300, char_size: serial_core::Bits5, parity: serial_core::ParityEven, stop_bits: serial_core::Stop2, flow: serial_core::FlowHardware }, Duration::from_millis(3), None);
    let calls = Rc::new(RefCell::new(0u32));
    let reply_msg = Message::ReportState(Address(3), State::PageLoaded);
    let bus = CountingBus { calls: calls.clone(), reply: if reply { Some(reply_msg.clone()) } else { None }, fail: fault == 3 };
    let mut out: Vec<V> = vec![];
    let mut odk = match Odk::try_new(port, bus) {
        Ok(o) => o,
        Err(e) => return ("setup-failed".into(), vec![("setup".into(), "odk".into(), e.to_string())]),
    };
    let r = catch(|| odk.process_message());
    let desc = format!("bridge reading {} (bus replies: {}, fault {})", show_bytes(line), reply, ["none", "read error", "write error", "bus error"][fault as usize]);
    let r = match r {
        Err(p) => {
            out.push(("no-panic".into(), p.class(), format!("{} panicked: {}", desc, p.message)));
            return ("panic".into(), out);
        }
        Ok(r) => r,
    };
    let ncalls = *calls.borrow();
    let written = io.borrow().written.clone();
    let decodable = !matches!(impl_decode_msg(line), Some(Err(_)));
    let outcome: String;
    if fault == 1 || !decodable {
        outcome = if fault == 1 { "read-fault".into() } else { "undecodable".into() };
        // with a read fault after the whole line was delivered the line may have been read completely; only judge faults inside the line
        let fault_inside = fault != 1 || j < line.len();
        if fault_inside {
            match &r {
                Err(OdkError::Communication { .. }) => {}
                other => out.push(("undecodable-line-is-communication-error".into(), format!("{:?}", other.as_ref().map_err(|e| format!("{}", e))).chars().take(24).collect(), format!("{}: result {:?}", desc, other))),
            }
            if ncalls != 0 {
                out.push(("undecodable-line-is-communication-error".into(), "bus-touched".into(), format!("{}: the bus saw {} call(s)", desc, ncalls)));
            }
            if !written.is_empty() {
                out.push(("undecodable-line-is-communication-error".into(), "wrote-something".into(), format!("{}: the bridge wrote {}", desc, show_bytes(&written))));
            }
        }
    } else if fault == 3 {
        outcome = "bus-fault".into();
        if !matches!(r, Err(OdkError::Bus { .. })) {
            out.push(("bus-error-is-bus-error".into(), "class".into(), format!("{}: result {:?}", desc, r)));
        }
        if !written.is_empty() {
            out.push(("bridge-writes-back-iff-replied".into(), "wrote-after-bus-error".into(), format!("{}: wrote {}", desc, show_bytes(&written))));
        }
    } else {
        outcome = if reply { "reply".into() } else { "silent".to_string() };
        if ncalls != 1 {
            out.push(("bridge-forwards-each-frame".into(), format!("{}-bus-calls", ncalls.min(2)), format!("{}: the bus saw {} calls", desc, ncalls)));
        }
        if reply && fault == 2 {
            if !matches!(r, Err(OdkError::Communication { .. })) {
                out.push(("write-failure-is-communication-error".into(), "class".into(), format!("{}: result {:?}", desc, r)));
            }
        } else {
            if r.is_err() {
                out.push(("bridge-forwards-each-frame".into(), "error-on-valid-frame".into(), format!("{}: result {:?}", desc, r)));
            }
            let want = if reply { impl_wire(&reply_msg) } else { vec![] };
            if written != want {
                out.push(("bridge-writes-back-iff-replied".into(), if reply { "reply-not-written".into() } else { "wrote-without-reply".to_string() }, format!("{}: wrote {} expected {}", desc, show_bytes(&written), show_bytes(&want))));
            }
        }
    }
    (outcome, out)
}

/// Two lines through the SAME bridge: whatever the first line was (valid, malformed, empty), a valid second line
/// must be forwarded and answered normally.
pub fn check_bridge_seq(line1: &[u8], line2: &[u8]) -> (String, Vec<V>) {
    check_bridge_seq_cut(line1, None, line2)
}

/// `cut`: the first "line" is an unterminated fragment after which the port reports this answer (timeout / end of
/// input); the second line arrives afterwards.
pub fn check_bridge_seq_cut(line1: &[u8], cut: Option<RAns>, line2: &[u8]) -> (String, Vec<V>) {
    let log = new_log();
    let mut tape = line1.to_vec();
    tape.extend_from_slice(line2);
    let mut sio = ScriptIo::new(tape, log.clone());
    if let Some(c) = &cut {
        sio.rscript = vec![RAns::Deliver(1); line1.len()];
        sio.rscript.push(c.clone());
    }
    let io = Rc::new(RefCell::new(sio));
    let port = ScriptPort::new(io.clone(), Line { baud: serial_core::Baud300, char_size: serial_core::Bits5, parity: serial_core::ParityEven, stop_bits: serial_core::Stop2, flow: serial_core::FlowHardware }, Duration::from_millis(3), None);
    let calls = Rc::new(RefCell::new(0u32));
    let reply_msg = Message::ReportState(Address(3), State::PageLoaded);
    let bus = CountingBus { calls: calls.clone(), reply: Some(reply_msg.clone()), fail: false };
    let mut out: Vec<V> = vec![];
    let mut odk = match Odk::try_new(port, bus) {
        Ok(o) => o,
        Err(e) => return ("setup-failed".into(), vec![("setup".into(), "odk".into(), e.to_string())]),
    };
    let r = catch(|| {
        let r1 = odk.process_message();
        let calls1 = *calls.borrow();
        let written1 = io.borrow().written.len();
        let r2 = odk.process_message();
        (r1.map_err(|e| format!("{:?}", e)), calls1, written1, r2.map_err(|e| format!("{:?}", e)))
    });
    let desc = format!("bridge reading {} and then {}", show_bytes(&line1[..line1.len().min(40)]), show_bytes(&line2[..line2.len().min(40)]));
    let (_r1, calls1, written1, r2) = match r {
        Err(p) => return ("panic".into(), vec![("no-panic".into(), p.class(), format!("{} panicked: {}", desc, p.message))]),
        Ok(x) => x,
    };
    let first_ok = cut.is_none() && matches!(impl_decode_msg(line1), Some(Ok(_)));
    let calls2 = *calls.borrow() - calls1;
    let written2 = io.borrow().written[written1..].to_vec();
    let cls = if first_ok { "after-valid-line" } else if cut.is_some() { "after-unterminated-fragment" } else { "after-undecodable-line" };
    if calls2 != 1 || r2.is_err() {
        out.push(("bridge-forwards-each-frame".into(), format!("second-line:{}", cls), format!("{}: second call returned {:?}, the bus saw {} call(s) for it", desc, r2, calls2)));
    } else if written2 != impl_wire(&reply_msg) {
        out.push(("bridge-writes-back-iff-replied".into(), format!("second-line:{}", cls), format!("{}: the reply to the second line was written as {}", desc, show_bytes(&written2))));
    }
    (cls.to_string(), out)
}

pub fn run(ctx: &Ctx) -> Report {
    let mut rep = Report::new(ctx);
    let thorough = ctx.tier.thorough();
    rep.rule = "E2 differential: (a) controller level - breadth-first search to a fixed point over pairs (virtual bus behind the full serial path, identical virtual bus driven directly) with the operations configure, configure_if_needed, send_pages of 4 lists, show, load_next, shut_down, configure as another type, configure an absent address, \
                for all 11 sign types x both flip styles x addresses; (b) message level - the same over the R2 message alphabet extended with 0/1/15/254/255-byte chunks, each message sent down both paths; after every step results, replies and every sign's state/type/pages are compared and every bridge call is judged (one decoded message in, a frame back iff the bus replied); \
                (c) every reply/malformed line of the C16 list x {bus replies, silent} x {no fault, read error at every call index, write error, bus error} injected at a bridge on a scripted port, and every such line followed by a valid second line through the SAME bridge (which must be forwarded and answered normally). distinct_nontrivial = distinct stored pair states + bridge runs"
        .into();
    rep.trusted_base = vec!["the in-process duplex pipe (PortA/PortB in c17.rs)".into(), "bfs.rs".into(), "the codec is taken as given when judging bridge calls (Frame::from_bytes + Message::from, Frame::to_bytes_with_newline)".into(), "the sleep seam (pauses skipped)".into()];
    let budget = ctx.clone();
    let deadline = move || budget.over_budget();
    let mut runs = vec![];
    let mut tags = 0u64;
    let ops = vec![WOp::Configure, WOp::ConfigureIfNeeded, WOp::SendPages(0), WOp::SendPages(1), WOp::SendPages(2), WOp::SendPages(3), WOp::Show, WOp::LoadNext, WOp::ShutDown, WOp::ConfigureAsOther, WOp::ConfigureAbsent];
    let types: Vec<usize> = if thorough { (0..11).collect() } else { vec![5, 2, 8, 3] };
    for &ti in &types {
        for automatic in [false, true] {
            for own_addr in if thorough { vec![3u16, 0xFFFF] } else { vec![3u16] } {
                let sys = CtlWire { type_idx: ti, automatic, own: own_addr, lists: page_lists(SIGN_TYPES[ti].0, ctx.seed), ops: ops.clone() };
                let res = bfs(&sys, 200_000, &deadline);
                tags |= res.stats.tags;
                absorb_bfs(&mut rep, &sys.name(), &res.stats, &mut runs);
                for v in res.violations {
                    rep.violation(v);
                }
                if runs.len() == 1 {
                    for s in res.sample_paths.into_iter().take(1) {
                        rep.sample(s);
                    }
                }
            }
        }
    }
    // all ordered pairs and triples of controller operations through one wire
    {
        let mut seq_acc = Acc::default();
        for &ti in if thorough { &types[..] } else { &types[..1] } {
            for automatic in [false, true] {
                let sys = CtlWire { type_idx: ti, automatic, own: 3, lists: page_lists(SIGN_TYPES[ti].0, ctx.seed), ops: ops.clone() };
                let n = ops.len();
                let mut seqs: Vec<Vec<usize>> = vec![];
                for a in 0..n {
                    for b in 0..n {
                        seqs.push(vec![a, b]);
                        for c in 0..n {
                            seqs.push(vec![a, b, c]);
                        }
                    }
                }
                for (si, seq) in seqs.iter().enumerate() {
                    seq_acc.evals += 1;
                    seq_acc.outcomes.add("controller-sequence-through-one-wire");
                    for (clause, class, detail) in ctl_seq(&sys, seq) {
                        seq_acc.violation("C17", Violation::new(&clause, class, detail, json!({"kind": "ctl-seq", "system": sys.config_json(), "ops": seq}), (1 << 53) + ((seq.len() as u64) << 32) + si as u64));
                    }
                }
            }
        }
        rep.transitions += seq_acc.evals;
        rep.set("controller_sequences_through_one_wire", json!(seq_acc.evals));
        rep.absorb(seq_acc);
    }
    if thorough {
        // every chunk length 0..=255 crosses the wire (R1 alphabet), manual flip
        let mut a = crate::signsys::alphabet_r1(true);
        a.name = "R1-all-lengths-over-the-wire".into();
        let sys = MsgWire { alpha: a, automatic: false };
        let res = bfs(&sys, 2_000_000, &deadline);
        absorb_bfs(&mut rep, &sys.name(), &res.stats, &mut runs);
        for v in res.violations {
            rep.violation(v);
        }
    }
    for automatic in [false, true] {
        let sys = MsgWire { alpha: msg_alphabet(), automatic };
        let res = bfs(&sys, 2_000_000, &deadline);
        absorb_bfs(&mut rep, &sys.name(), &res.stats, &mut runs);
        for v in res.violations {
            rep.violation(v);
        }
        for s in res.sample_paths.into_iter().take(1) {
            rep.sample(s);
        }
    }
    // (c)
    let lines = reply_lines();
    let mut jobs: Vec<(usize, bool, u8, usize)> = vec![];
    for li in 0..lines.len() {
        for reply in [false, true] {
            jobs.push((li, reply, 0, 0));
            jobs.push((li, reply, 2, 0));
            jobs.push((li, reply, 3, 0));
            for j in 0..=lines[li].1.len() {
                jobs.push((li, reply, 1, j));
            }
        }
    }
    let accs = par_range(jobs.len() as u64, 16, Acc::default, |acc, i| {
        let (li, reply, fault, j) = jobs[i as usize];
        acc.evals += 1;
        let (outcome, vs) = check_bridge(&lines[li].1, reply, fault, j);
        acc.outcomes.add(&format!("bridge:{}", outcome));
        acc.nontrivial_fp.push(i);
        for (clause, class, detail) in vs {
            acc.violation("C17", Violation::new(&clause, class, detail, json!({"kind": "bridge", "line": hex(&lines[li].1), "line_shown": show_bytes(&lines[li].1), "reply": reply, "fault": fault, "j": j}), (1 << 50) + i));
        }
    });
    let mut all = Acc::default();
    for a in accs {
        all.merge("C17", a);
    }
    // sequences through one bridge
    let seconds: Vec<Vec<u8>> = vec![crate::refmodel::ref_encode(3, 2, &[0xFF], true), crate::refmodel::ref_encode(16, 0, &[0x11; 16], true), crate::refmodel::ref_encode(0, 0, &[0x22; 255], true)];
    for (li, l1) in lines.iter().enumerate() {
        if l1.1.is_empty() {
            continue;
        }
        for (si, l2) in seconds.iter().enumerate() {
            all.evals += 1;
            let (outcome, vs) = check_bridge_seq(&l1.1, l2);
            all.outcomes.add(&format!("bridge-seq:{}", outcome));
            all.nontrivial_fp.push((1u64 << 45) | ((li as u64) << 8) | si as u64);
            for (clause, class, detail) in vs {
                all.violation("C17", Violation::new(&clause, class, detail, json!({"kind": "bridge-seq", "line1": hex(&l1.1), "line2": hex(l2), "shown": format!("{} then {}", show_bytes(&l1.1), show_bytes(&l2[..l2.len().min(30)]))}), (1 << 51) + (li * 8 + si) as u64));
            }
        }
    }
    // an unterminated fragment (noise, half a frame) cut off by a timeout or end of input, then a valid line
    for frag in [&b":0100"[..], b":", b"x", b":01000302FF", b"\r", b":0G"] {
        for (ci, cutans) in [RAns::Fail(io::ErrorKind::TimedOut), RAns::Eof].iter().enumerate() {
            for (si, l2) in seconds.iter().enumerate() {
                all.evals += 1;
                let (outcome, vs) = check_bridge_seq_cut(frag, Some(cutans.clone()), l2);
                all.outcomes.add(&format!("bridge-seq:{}", outcome));
                all.nontrivial_fp.push((1u64 << 46) | ((frag.len() as u64) << 8) | (ci * 4 + si) as u64);
                for (clause, class, detail) in vs {
                    all.violation("C17", Violation::new(&clause, class, detail, json!({"kind": "bridge-seq-cut", "fragment": hex(frag), "cut": if ci == 0 { "timeout" } else { "eof" }, "line2": hex(l2)}), (1 << 52) + (frag.len() * 16 + ci * 4 + si) as u64));
                }
            }
        }
    }
    let bridge_runs = all.evals;
    rep.transitions += bridge_runs;
    let nt = rep.absorb(all);
    let _ = nt;
    let mut xs = vec![];
    if rep.violations.is_empty() {
        crate::xcheck::cross_check(&mut rep, &mut xs, &runs, MsgWire { alpha: msg_alphabet(), automatic: false });
    }
    rep.set("stateright_cross_check", Value::Array(xs));
    rep.set("bfs_runs", Value::Array(runs));
    rep.set("bridge_fault_runs", json!(bridge_runs));
    let bad = !rep.violations.is_empty();
    rep.guard("operations-succeeded-and-failed", tags & (1 << 40) != 0 && tags & (1 << 41) != 0 || bad, "both successful and failing controller operations compared");
    let mut missing = vec![];
    for (i, s) in crate::refmodel::STATES.iter().enumerate() {
        if tags & (1 << i) == 0 && !matches!(s.0, State::ConfigInProgress | State::ConfigFailed | State::PixelsInProgress | State::PixelsFailed | State::PixelsReceived | State::ReadyToReset | State::PageLoadInProgress | State::PageShowInProgress) {
            missing.push(format!("{:?}", s.0));
        }
    }
    rep.guard("quiescent-states-reached-at-controller-level", missing.is_empty() || bad, format!("missing {:?}", missing));
    rep.guard("bridge-fault-classes", ["bridge:reply", "bridge:silent", "bridge:undecodable", "bridge:read-fault", "bridge:bus-fault"].iter().all(|k| rep.outcomes.get(k) > 0) || bad, format!("{:?}", rep.outcomes.0.iter().filter(|x| x.0.starts_with("bridge")).collect::<Vec<_>>()));
    rep.assumptions.push("a reply that is due but not given by the bus (refused request) is 'no reply' directly and a read failure over the wire; both make the controller operation fail, which is what 'succeeds exactly when' compares".into());
    rep
}

pub fn replay(ctx: &Ctx, case: &Value) -> Result<Vec<Violation>, String> {
    let mk = |vs: Vec<V>| vs.into_iter().map(|(c, k, d)| Violation::new(&c, k, d, case.clone(), 0)).collect::<Vec<_>>();
    match case["kind"].as_str() {
        Some("path") => {
            let sj = &case["system"];
            let path: Vec<usize> = case["actions"].as_array().ok_or("actions")?.iter().map(|x| x.as_u64().unwrap() as usize).collect();
            match sj["system"].as_str() {
                Some("ctl-wire") => {
                    let ti = sj["type_index"].as_u64().ok_or("type_index")? as usize;
                    let ops = vec![WOp::Configure, WOp::ConfigureIfNeeded, WOp::SendPages(0), WOp::SendPages(1), WOp::SendPages(2), WOp::SendPages(3), WOp::Show, WOp::LoadNext, WOp::ShutDown, WOp::ConfigureAsOther, WOp::ConfigureAbsent];
                    let sys = CtlWire { type_idx: ti, automatic: sj["automatic"].as_bool().unwrap_or(false), own: sj["own"].as_u64().ok_or("own")? as u16, lists: page_lists(SIGN_TYPES[ti].0, ctx.seed), ops };
                    Ok(mk(replay_path(&sys, &path)?))
                }
                Some("msg-wire") => {
                    let alpha = if sj["alphabet"].as_str() == Some("R1-all-lengths-over-the-wire") { let mut a = crate::signsys::alphabet_r1(true); a.name = "R1-all-lengths-over-the-wire".into(); a } else { msg_alphabet() };
                    let sys = MsgWire { alpha, automatic: sj["automatic"].as_bool().unwrap_or(false) };
                    Ok(mk(replay_path(&sys, &path)?))
                }
                _ => Err("unknown system".into()),
            }
        }
        Some("ctl-seq") => {
            let sj = &case["system"];
            let ti = sj["type_index"].as_u64().ok_or("type_index")? as usize;
            let ops = vec![WOp::Configure, WOp::ConfigureIfNeeded, WOp::SendPages(0), WOp::SendPages(1), WOp::SendPages(2), WOp::SendPages(3), WOp::Show, WOp::LoadNext, WOp::ShutDown, WOp::ConfigureAsOther, WOp::ConfigureAbsent];
            let sys = CtlWire { type_idx: ti, automatic: sj["automatic"].as_bool().unwrap_or(false), own: sj["own"].as_u64().ok_or("own")? as u16, lists: page_lists(SIGN_TYPES[ti].0, ctx.seed), ops };
            let seq: Vec<usize> = case["ops"].as_array().ok_or("ops")?.iter().map(|x| x.as_u64().unwrap() as usize).collect();
            Ok(mk(ctl_seq(&sys, &seq)))
        }
        Some("bridge-seq-cut") => {
            let cut = if case["cut"].as_str() == Some("timeout") { RAns::Fail(io::ErrorKind::TimedOut) } else { RAns::Eof };
            let (_, vs) = check_bridge_seq_cut(&crate::util::unhex(case["fragment"].as_str().ok_or("fragment")?), Some(cut), &crate::util::unhex(case["line2"].as_str().ok_or("line2")?));
            Ok(mk(vs))
        }
        Some("bridge-seq") => {
            let (_, vs) = check_bridge_seq(&crate::util::unhex(case["line1"].as_str().ok_or("line1")?), &crate::util::unhex(case["line2"].as_str().ok_or("line2")?));
            Ok(mk(vs))
        }
        Some("bridge") => {
            let (_, vs) = check_bridge(&crate::util::unhex(case["line"].as_str().ok_or("line")?), case["reply"].as_bool().unwrap_or(false), case["fault"].as_u64().unwrap_or(0) as u8, case["j"].as_u64().unwrap_or(0) as usize);
            Ok(mk(vs))
        }
        _ => Err("unknown case kind".into()),
    }
}
