use serde_json::Value;

use crate::report::{Ctx, Report, Violation};

macro_rules! props {
    ($( $id:literal => $m:ident ),* $(,)?) => {
        $( pub mod $m; )*
        pub const ALL: &[&str] = &[$($id),*];
        pub fn run(ctx: &Ctx) -> Option<Report> {
            Some(match ctx.id.as_str() {
                $( $id => $m::run(ctx), )*
                _ => return None,
            })
        }
        pub fn replay(ctx: &Ctx, case: &Value) -> Result<Vec<Violation>, String> {
            match ctx.id.as_str() {
                $( $id => $m::replay(ctx, case), )*
                _ => Err(format!("no replayer for {}", ctx.id)),
            }
        }
    };
}

props! {
    "C01" => c01,
    "C02" => c02,
    "C03" => c03,
    "C04" => c04,
    "C05" => c05,
    "C06" => c06,
    "C07" => c07,
    "C08" => c08,
    "C09" => c09,
    "C10" => c10,
    "C11" => c11,
    "C12" => c12,
    "C13" => c13,
    "C14" => c14,
    "C15" => c15,
    "C16" => c16,
    "C17" => c17,
    "C18" => c18,
    "C19" => c19,
    "C20" => c20,
}
