use serde_json::Value;

use crate::report::{Ctx, Report, Violation};

pub mod c01;

pub const ALL: &[&str] = &["C01"];

pub fn run(ctx: &Ctx) -> Option<Report> {
    Some(match ctx.id.as_str() {
        "C01" => c01::run(ctx),
        _ => return None,
    })
}

pub fn replay(ctx: &Ctx, case: &Value) -> Result<Vec<Violation>, String> {
    match ctx.id.as_str() {
        "C01" => c01::replay(ctx, case),
        _ => Err(format!("no replayer for {}", ctx.id)),
    }
}
