//! C15 — Frame::read consumes exactly one line; Frame::write delivers the whole frame
//! (E3/E4: every environment answer — fragment size, interrupt, short/zero transfer, hard error — at every call index).

use std::io;

use flipdot_core::{Address, Data, Frame, FrameError, MsgType};
use serde_json::{json, Value};

use crate::devices::{new_log, RAns, ScriptIo, WAns};
use crate::refmodel::ref_encode;
use crate::report::{Acc, Ctx, Report, Violation};
use crate::util::{catch, fill, hex, par_range, show_bytes, unhex};

const ID: &str = "C15";
type V = (&'static str, String, String);

pub const KINDS: [io::ErrorKind; 4] = [io::ErrorKind::Other, io::ErrorKind::TimedOut, io::ErrorKind::UnexpectedEof, io::ErrorKind::BrokenPipe];

fn kind_name(k: io::ErrorKind) -> &'static str {
    match k {
        io::ErrorKind::Other => "Other",
        io::ErrorKind::TimedOut => "TimedOut",
        io::ErrorKind::UnexpectedEof => "UnexpectedEof",
        io::ErrorKind::BrokenPipe => "BrokenPipe",
        io::ErrorKind::Interrupted => "Interrupted",
        _ => "?",
    }
}
fn kind_from(s: &str) -> io::ErrorKind {
    KINDS.iter().copied().find(|k| kind_name(*k) == s).unwrap_or(io::ErrorKind::Other)
}

pub fn rans_str(a: &RAns) -> String {
    match a {
        RAns::Deliver(n) => format!("D{}", if *n == usize::MAX { 0 } else { *n }),
        RAns::Interrupted => "I".into(),
        RAns::Fail(k) => format!("F:{}", kind_name(*k)),
        RAns::Eof => "E".into(),
    }
}
pub fn rans_from(s: &str) -> RAns {
    if let Some(n) = s.strip_prefix('D') {
        let n: usize = n.parse().unwrap_or(0);
        RAns::Deliver(if n == 0 { usize::MAX } else { n })
    } else if s == "I" {
        RAns::Interrupted
    } else if s == "E" {
        RAns::Eof
    } else {
        RAns::Fail(kind_from(s.trim_start_matches("F:")))
    }
}
pub fn wans_str(a: &WAns) -> String {
    match a {
        WAns::Accept(n) => format!("A{}", if *n == usize::MAX { 0 } else { *n }),
        WAns::Interrupted => "I".into(),
        WAns::Fail(k) => format!("F:{}", kind_name(*k)),
        WAns::Zero => "Z".into(),
    }
}
pub fn wans_from(s: &str) -> WAns {
    if let Some(n) = s.strip_prefix('A') {
        let n: usize = n.parse().unwrap_or(0);
        WAns::Accept(if n == 0 { usize::MAX } else { n })
    } else if s == "I" {
        WAns::Interrupted
    } else if s == "Z" {
        WAns::Zero
    } else {
        WAns::Fail(kind_from(s.trim_start_matches("F:")))
    }
}

/// Runs `reads` successive Frame::read calls over a scripted stream and checks each against the reference.
pub fn check_read(tape: &[u8], rscript: &[RAns], reads: usize) -> (String, Vec<V>) {
    // every case on a fresh thread: a reader that keeps state between calls (thread-local scratch) must not make one
    // case depend on the cases enumerated before it, and a reported case must replay on its own
    let (t, r) = (tape.to_vec(), rscript.to_vec());
    crate::util::maybe_isolated(move || check_read_here(&t, &r, reads))
}

fn check_read_here(tape: &[u8], rscript: &[RAns], reads: usize) -> (String, Vec<V>) {
    let log = new_log();
    let mut io = ScriptIo::new(tape.to_vec(), log.clone());
    io.rscript = rscript.to_vec();
    let mut out: Vec<V> = vec![];
    let mut outcome = String::new();
    for r in 0..reads {
        let start = io.pos;
        let calls_before = io.rcalls;
        let res = catch(|| Frame::read(&mut io).map(|f| (f.address().0, f.message_type().0, f.data().to_vec())));
        let end = io.pos;
        // which answers did this call see?
        let evs = log.borrow();
        let mut fault: Option<RAns> = None;
        let mut max_request = 0usize;
        let mut idx = 0usize;
        for e in evs.iter() {
            if let crate::devices::Ev::Read { requested, got } = e {
                if idx >= calls_before {
                    max_request = max_request.max(*requested);
                    match got {
                        Err(io::ErrorKind::Interrupted) => {}
                        Err(k) => fault = Some(RAns::Fail(*k)),
                        Ok(0) if *requested > 0 => fault = Some(RAns::Eof),
                        _ => {}
                    }
                }
                idx += 1;
            }
        }
        drop(evs);
        let consumed = &tape[start..end];
        // expected line: up to and including the first LF at or after start (or to the end of the stream)
        let line_end = tape[start..].iter().position(|&b| b == b'\n').map(|p| start + p + 1).unwrap_or(tape.len());
        let desc = format!("read #{} of stream {} with answers [{}]", r, show_bytes(tape), rscript.iter().map(rans_str).collect::<Vec<_>>().join(","));
        match res {
            Err(p) => {
                out.push(("no-panic", p.class(), format!("{} panicked: {}", desc, p.message)));
                outcome.push('P');
                break;
            }
            Ok(result) => {
                match &fault {
                    Some(RAns::Fail(_)) => {
                        outcome.push('F');
                        match result {
                            Err(FrameError::Io { .. }) => {}
                            Err(e) => out.push(("io-error-surfaces", "other-error".into(), format!("{}: hard I/O error was reported as {:?}", desc, e))),
                            Ok(f) => out.push(("io-error-surfaces", "frame-invented".into(), format!("{}: hard I/O error but a frame {:?} was returned", desc, f))),
                        }
                        if end > line_end {
                            out.push(("consumes-exactly-one-line", "over-consumed-before-error".into(), format!("{}: consumed {} bytes, the line has {}", desc, end - start, line_end - start)));
                        }
                        break; // the stream is broken from here on
                    }
                    other => {
                        // no hard error: the call sees the line, or (premature Ok(0)) the bytes delivered so far
                        let expected_end = if matches!(other, Some(RAns::Eof)) { end.min(line_end) } else { line_end };
                        if matches!(other, Some(RAns::Eof)) {
                            outcome.push('E');
                        }
                        if end != expected_end || (matches!(other, Some(RAns::Eof)) && end > line_end) {
                            let cls = if end > line_end { "over-consumed" } else { "under-consumed" };
                            out.push(("consumes-exactly-one-line", format!("{}:max-request-{}", cls, if max_request <= 1 { "1".to_string() } else { ">1".to_string() }), format!("{}: consumed {} bytes ({}), the line is {} bytes ({})", desc, end - start, show_bytes(consumed), line_end - start, show_bytes(&tape[start..line_end]))));
                            break;
                        }
                        // "the result equals decoding that line": the codec is taken as given (C01-C03 decide it); the
                        // reference is the implementation's own Frame::from_bytes on exactly the consumed bytes.
                        let want = catch(|| Frame::from_bytes(consumed).map(|f| (f.address().0, f.message_type().0, f.data().to_vec())).map_err(|e| format!("{:?}", e)));
                        let got = result.as_ref().map(|x| x.clone()).map_err(|e| format!("{:?}", e));
                        // a stream that ends (or reports end-of-file) before any line feed holds no line: the statement
                        // is silent there, so an I/O error is accepted as well as the decoding of what was delivered
                        let no_complete_line = matches!(other, Some(RAns::Eof)) || !consumed.ends_with(b"\n");
                        match (&result, &want) {
                            (_, Err(_)) => outcome.push('x'), // the decoder itself panicked on this line: not this property's business
                            (Err(FrameError::Io { .. }), _) if no_complete_line => outcome.push('e'),
                            (_, Ok(w)) if &got == w => outcome.push(match &result {
                                Ok(_) => 'k',
                                Err(FrameError::InvalidFrame { .. }) => 'm',
                                Err(FrameError::FrameDataMismatch { .. }) => 'l',
                                Err(FrameError::BadChecksum { .. }) => 'c',
                                Err(_) => 'o',
                            }),
                            (_, Ok(w)) => {
                                let class = match (&result, w) {
                                    (Ok(_), Ok(_)) => "different-frame",
                                    (Ok(_), Err(_)) => "frame-from-undecodable-line",
                                    (Err(_), Ok(_)) => "error-for-decodable-line",
                                    (Err(_), Err(_)) => "different-error",
                                };
                                out.push(("result-equals-decoding-the-line", class.into(), format!("{}: returned {:?}, Frame::from_bytes on the line {} gives {:?}", desc, got, show_bytes(consumed), w)));
                                break;
                            }
                        }
                        if matches!(other, Some(RAns::Eof)) && end < line_end {
                            break; // premature EOF: stop here, later reads would re-read the rest, which is fine but not needed
                        }
                    }
                }
            }
        }
        if io.pos >= tape.len() {
            break;
        }
    }
    (outcome, out)
}

pub fn check_write(addr: u16, typ: u8, data: &[u8], wscript: &[WAns]) -> (&'static str, Vec<V>) {
    let (d, w) = (data.to_vec(), wscript.to_vec());
    crate::util::maybe_isolated(move || check_write_here(addr, typ, &d, &w))
}

fn check_write_here(addr: u16, typ: u8, data: &[u8], wscript: &[WAns]) -> (&'static str, Vec<V>) {
    let log = new_log();
    let mut io = ScriptIo::new(vec![], log.clone());
    io.wscript = wscript.to_vec();
    let frame = Frame::new(Address(addr), MsgType(typ), Data::try_new(data.to_vec()).unwrap());
    // "its encoding with CRLF": the codec is taken as given (C01 decides it)
    let want = catch(|| frame.to_bytes_with_newline()).unwrap_or_else(|_| ref_encode(addr, typ, data, true));
    let res = catch(|| frame.write(&mut io));
    let desc = format!("write of ({:04X},{:02X},{} data bytes) with answers [{}]", addr, typ, data.len(), wscript.iter().take(24).map(wans_str).collect::<Vec<_>>().join(","));
    let mut out: Vec<V> = vec![];
    // first fatal answer actually reached. A hard error is fatal; an accept of zero bytes is not an I/O failure in
    // itself (write_all turns it into WriteZero, a sink may also be asked again): after one, either an I/O error or
    // the complete frame is acceptable
    let mut fatal: Option<usize> = None;
    let mut zero_accept = false;
    {
        let evs = log.borrow();
        let mut idx = 0;
        for e in evs.iter() {
            if let crate::devices::Ev::Write { got, offered, .. } = e {
                let is_fatal = match got {
                    Err(io::ErrorKind::Interrupted) => false,
                    Err(_) => true,
                    Ok(0) => {
                        zero_accept |= *offered > 0;
                        false
                    }
                    Ok(_) => false,
                };
                if is_fatal && fatal.is_none() {
                    fatal = Some(idx);
                }
                idx += 1;
            }
        }
    }
    let outcome;
    match res {
        Err(p) => {
            outcome = "panic";
            out.push(("no-panic", p.class(), format!("{} panicked: {}", desc, p.message)));
        }
        Ok(r) => match (fatal, r) {
            (None, Ok(())) => {
                outcome = "ok";
                if io.written != want {
                    let cls = if io.written.len() < want.len() { "truncated" } else if io.written.len() > want.len() { "extra-bytes" } else { "different-bytes" };
                    out.push(("write-delivers-whole-frame", cls.into(), format!("{}: sink received {} but the encoding is {}", desc, show_bytes(&io.written[..io.written.len().min(40)]), show_bytes(&want[..want.len().min(40)]))));
                }
            }
            (None, Err(FrameError::Io { .. })) if zero_accept => {
                outcome = "io-error-after-zero-accept";
                if !want.starts_with(&io.written) {
                    out.push(("write-delivers-whole-frame", "not-a-prefix".into(), format!("{}: bytes delivered before giving up are not a prefix of the encoding", desc)));
                }
            }
            (None, Err(e)) => {
                outcome = "spurious-error";
                out.push(("write-delivers-whole-frame", "error-without-fault".into(), format!("{}: returned {:?} although the sink never failed", desc, e)));
            }
            (Some(j), Err(FrameError::Io { .. })) => {
                outcome = "io-error";
                if io.wcalls != j + 1 {
                    out.push(("nothing-written-after-error", "more-calls".into(), format!("{}: {} write calls after the failing call #{}", desc, io.wcalls - j - 1, j)));
                }
                if !want.starts_with(&io.written) {
                    out.push(("write-delivers-whole-frame", "not-a-prefix".into(), format!("{}: bytes delivered before the failure are not a prefix of the encoding", desc)));
                }
            }
            (Some(_), Err(e)) => {
                outcome = "other-error";
                out.push(("io-error-surfaces", "other-error".into(), format!("{}: sink failure reported as {:?}", desc, e)));
            }
            (Some(j), Ok(())) => {
                outcome = "failure-swallowed";
                out.push(("io-error-surfaces", "swallowed".into(), format!("{}: the sink failed at call #{} but write returned Ok (sink holds {} of {} bytes)", desc, j, io.written.len(), want.len())));
            }
        },
    }
    (outcome, out)
}

/// History: a read that fails with a hard error after `keep` bytes of a line, then (same thread, NEW clean stream) the
/// ordinary reads. Leftovers of the failed read must not leak into the next one.
pub fn check_read_after_failure(partial: &[u8], kind: io::ErrorKind, tape: &[u8], reads: usize) -> Vec<V> {
    let (p, t) = (partial.to_vec(), tape.to_vec());
    crate::util::in_fresh_thread(move || {
        let log = new_log();
        let mut first = ScriptIo::new(p.clone(), log);
        first.at_end = RAns::Fail(kind);
        let _ = catch(|| Frame::read(&mut first).is_ok());
        let (_, vs) = check_read_here(&t, &[], reads);
        vs.into_iter().map(|(c, k, d)| (c, format!("after-failed-read:{}", k), format!("after a read that failed ({:?}) on the partial line {}: {}", kind, show_bytes(&p), d))).collect()
    })
}

fn streams(seed: u64) -> Vec<(String, Vec<u8>, usize)> {
    // (name, tape, number of lines incl. a trailing partial one)
    let f0 = ref_encode(0x0003, 2, &[0xFF], true);
    let f1 = ref_encode(0xABCD, 1, &[], true);
    let f2 = ref_encode(0x0010, 0, &[1, 2, 3], true);
    let nocr = {
        let mut x = ref_encode(0x0003, 2, &[0x00], false);
        x.push(b'\n');
        x
    };
    let bad = b":01000302FF00\r\n".to_vec();
    let cat = |parts: &[&[u8]]| parts.iter().flat_map(|p| p.iter().copied()).collect::<Vec<u8>>();
    let mut v = vec![
        ("one frame".to_string(), f1.clone(), 1),
        ("one frame + X".to_string(), cat(&[&f1, b"X"]), 2),
        ("one frame + ':0'".to_string(), cat(&[&f0, b":0"]), 2),
        ("two frames".to_string(), cat(&[&f1, &f0]), 2),
        ("two frames + partial".to_string(), cat(&[&f0, &f2, &f1[..7]]), 3),
        ("three frames".to_string(), cat(&[&f2, &f1, &f0]), 3),
        ("bad checksum then frame".to_string(), cat(&[&bad, &f1]), 2),
        ("line without CR then frame".to_string(), cat(&[&nocr, &f0]), 2),
        ("empty line then frame".to_string(), cat(&[b"\r\n", &f1]), 2),
        ("bare LF LF frame".to_string(), cat(&[b"\n\n", &f1]), 3),
        ("no newline at all".to_string(), f0[..f0.len() - 2].to_vec(), 1),
        ("empty stream".to_string(), vec![], 1),
    ];
    let long = ref_encode(0x1234, 0, &fill(255, 4, seed), true);
    v.push(("255-data-byte frame + frame".to_string(), cat(&[&long, &f1]), 2));
    // bytes that are not valid UTF-8 inside a line, and a lone lead byte at its end (a reader that goes through a
    // String would turn these lines into an I/O error instead of the decoder's verdict)
    v.push(("non-UTF-8 line then frame".to_string(), cat(&[b":01\xFF\xFE02FF\r\n", &f1]), 2));
    v.push(("lone UTF-8 lead byte before LF then frame".to_string(), cat(&[b":0100030200FA\xC3\n", &f0]), 2));
    let l16 = ref_encode(0x0020, 0, &fill(16, 5, seed), true);
    v.push(("16-data-byte frame x2 + X".to_string(), cat(&[&l16, &l16, b"X"]), 3));
    v
}

fn read_case(tape: &[u8], script: &[RAns], reads: usize) -> Value {
    json!({"kind": "read", "tape": hex(tape), "tape_shown": show_bytes(&tape[..tape.len().min(80)]), "answers": script.iter().map(rans_str).collect::<Vec<_>>(), "reads": reads})
}

pub fn run(ctx: &Ctx) -> Report {
    let first = run_pass(ctx);
    if first.violations.is_empty() || crate::util::ISOLATE_CASES.load(std::sync::atomic::Ordering::Relaxed) {
        return first;
    }
    // something failed: enumerate again with every case on a fresh thread, so that what is reported replays on its own
    crate::util::ISOLATE_CASES.store(true, std::sync::atomic::Ordering::Relaxed);
    let mut second = run_pass(ctx);
    if second.violations.is_empty() {
        second.machinery_errors.push(format!("the direct pass saw {} violation signature(s) (e.g. {}) that do not reproduce when every case runs on a fresh thread: the subject's results depend on calls made earlier on the same thread (hidden thread-local/global state); no self-contained case could be produced here, see C15/C03 whose cases contain the history", first.violations.len(), first.violations.keys().next().cloned().unwrap_or_default()));
    }
    second
}

fn run_pass(ctx: &Ctx) -> Report {
    let mut rep = Report::new(ctx);
    let thorough = ctx.tier.thorough();
    rep.rule = "E3: the real Frame::read / Frame::write run against a scripted stream whose every call is answered from a finite script; enumerated: every composition of the stream into delivery sizes (short streams), \
                every subset of interrupted call indices among the first m calls, a hard error of 4 kinds and a premature Ok(0) at every call index, all placements of <= 2 interrupts combined with one terminal fault on longer streams; \
                for write every composition of the output into accepted sizes, interrupts, Ok(0) and hard errors at every call index. Each run continues to the natural end (all frames read). \
                Non-trivial = runs in which at least one environment answer deviates from 'deliver everything' ; distinct by (stream, script)"
        .into();
    rep.trusted_base = vec!["devices.rs ScriptIo".into(), "the codec is taken as given: Frame::from_bytes on the consumed bytes and Frame::to_bytes_with_newline are the references (C01-C03 decide whether they are right)".into()];
    let ss = streams(ctx.seed);
    // job list: (stream idx, script)
    let mut jobs: Vec<(usize, Vec<RAns>)> = vec![];
    for (si, (_, tape, _)) in ss.iter().enumerate() {
        let n = tape.len();
        jobs.push((si, vec![]));
        // delivery sizes: uniform k for all calls
        for k in [1usize, 2, 3, 5, 64] {
            jobs.push((si, vec![RAns::Deliver(k); n + 2]));
        }
        // every composition for short streams
        if n >= 1 && n <= if thorough { 18 } else { 14 } {
            for mask in 0..(1u32 << (n - 1)) {
                let mut script = vec![];
                let mut run = 1usize;
                for b in 0..n - 1 {
                    if mask & (1 << b) != 0 {
                        script.push(RAns::Deliver(run));
                        run = 1;
                    } else {
                        run += 1;
                    }
                }
                script.push(RAns::Deliver(run));
                jobs.push((si, script));
            }
        }
        // one or two interrupted calls anywhere (every index, also on the long streams)
        let upto_i = n.min(if thorough { 600 } else { 540 }) + 2;
        for j in 0..upto_i {
            let mut script = vec![RAns::Deliver(usize::MAX); j];
            script.push(RAns::Interrupted);
            jobs.push((si, script.clone()));
            if j % 7 == 0 {
                script.push(RAns::Interrupted);
                script.push(RAns::Deliver(1));
                script.push(RAns::Interrupted);
                jobs.push((si, script));
            }
        }
        // hard error / EOF at every call index
        let upto = n.min(if thorough { 600 } else { 80 }) + 2;
        for j in 0..upto {
            for a in KINDS.iter().map(|k| RAns::Fail(*k)).chain([RAns::Eof]) {
                let mut script = vec![RAns::Deliver(usize::MAX); j];
                script.push(a.clone());
                jobs.push((si, script.clone()));
                // the same with one-byte deliveries and an interrupt just before
                let mut s2 = vec![RAns::Deliver(1); j];
                s2.push(RAns::Interrupted);
                s2.push(a);
                jobs.push((si, s2));
            }
        }
        // every subset of interrupted calls among the first m calls
        let m = if n == 0 { 2 } else { n.min(if thorough { 17 } else { 12 }) };
        if n <= 40 {
            for mask in 1..(1u32 << m) {
                let script: Vec<RAns> = (0..m).map(|b| if mask & (1 << b) != 0 { RAns::Interrupted } else { RAns::Deliver(usize::MAX) }).collect();
                jobs.push((si, script));
            }
        }
        // <= 2 interrupts anywhere + one terminal fault anywhere later (longer streams)
        if n > 14 && n <= 60 {
            let l = n + 3;
            for i1 in 0..l {
                for i2 in i1..l {
                    let mut base = vec![RAns::Deliver(usize::MAX); l];
                    base[i1] = RAns::Interrupted;
                    base[i2] = RAns::Interrupted;
                    jobs.push((si, base.clone()));
                    if thorough || (i1 + i2) % 3 == 0 {
                        for j in (i2 + 1)..l {
                            for a in [RAns::Fail(io::ErrorKind::Other), RAns::Eof] {
                                let mut s = base.clone();
                                s[j] = a;
                                s.truncate(j + 1);
                                jobs.push((si, s));
                            }
                        }
                    }
                }
            }
        }
    }
    let njobs = jobs.len() as u64;
    let accs = par_range(njobs, 256, Acc::default, |acc, i| {
        let (si, ref script) = jobs[i as usize];
        let (_, ref tape, lines) = ss[si];
        acc.evals += 1;
        let (outcome, vs) = check_read(tape, script, lines + 1);
        acc.outcomes.add(&format!("read:{}", outcome));
        if script.iter().any(|a| !matches!(a, RAns::Deliver(usize::MAX))) {
            acc.nontrivial_fp.push(i);
        }
        for (clause, class, detail) in vs {
            acc.violation(ID, Violation::new(clause, class, detail, read_case(tape, script, lines + 1), ((tape.len() as u64) << 40) | ((script.len() as u64) << 28) | i));
        }
    });
    let mut all = Acc::default();
    for a in accs {
        all.merge(ID, a);
    }
    // history: every prefix of two lines left behind by a failed read, then clean streams
    let partial_src = [ref_encode(0x0003, 2, &[0xFF], true), ref_encode(0x0010, 0, &[1, 2, 3], true)];
    let mut hj: Vec<(Vec<u8>, io::ErrorKind, usize)> = vec![];
    for src in &partial_src {
        for keep in 0..src.len() {
            for k in [io::ErrorKind::TimedOut, io::ErrorKind::Other] {
                for si in [0usize, 3, 5] {
                    hj.push((src[..keep].to_vec(), k, si));
                }
            }
        }
    }
    let accs = par_range(hj.len() as u64, 8, Acc::default, |acc, i| {
        let (ref partial, kind, si) = hj[i as usize];
        acc.evals += 1;
        acc.outcomes.add("read:after-failed-read");
        acc.nontrivial_fp.push((1u64 << 41) | i);
        for (clause, class, detail) in check_read_after_failure(partial, kind, &ss[si].1, ss[si].2 + 1) {
            acc.violation(ID, Violation::new(clause, class, detail, json!({"kind": "read-after-failure", "partial": hex(partial), "error": kind_name(kind), "tape": hex(&ss[si].1), "reads": ss[si].2 + 1}), (1u64 << 50) | i));
        }
    });
    for a in accs {
        all.merge(ID, a);
    }
    let read_runs = all.evals;

    // ---- write ----
    let wframes: Vec<(u16, u8, Vec<u8>)> = vec![(0xABCD, 1, vec![]), (0x0003, 2, vec![0xFF]), (0x0010, 0, vec![1, 2]), (0x7F80, 0, vec![9, 8, 7])];
    let mut wjobs: Vec<(usize, Vec<WAns>)> = vec![];
    for (fi, (_, _, d)) in wframes.iter().enumerate() {
        let n = 13 + 2 * d.len();
        if n <= if thorough { 19 } else { 15 } {
            for mask in 0..(1u32 << (n - 1)) {
                let mut script = vec![];
                let mut run = 1usize;
                for b in 0..n - 1 {
                    if mask & (1 << b) != 0 {
                        script.push(WAns::Accept(run));
                        run = 1;
                    } else {
                        run += 1;
                    }
                }
                script.push(WAns::Accept(run));
                wjobs.push((fi, script));
            }
        }
        for k in [1usize, 2, 3, 7] {
            // uniform small accepts, then a fault / interrupt at every call index
            let calls = (n + k - 1) / k;
            wjobs.push((fi, vec![WAns::Accept(k); calls + 1]));
            for j in 0..=calls {
                for a in KINDS.iter().map(|x| WAns::Fail(*x)).chain([WAns::Zero, WAns::Interrupted]) {
                    let mut s = vec![WAns::Accept(k); calls + 2];
                    s[j] = a.clone();
                    wjobs.push((fi, s.clone()));
                    if j + 1 < s.len() {
                        s[j + 1] = WAns::Interrupted;
                        wjobs.push((fi, s));
                    }
                }
            }
        }
        // every subset of interrupted calls among the first 10 calls with 2-byte accepts
        for mask in 1..(1u32 << 10) {
            let mut s: Vec<WAns> = vec![];
            for b in 0..10 {
                if mask & (1 << b) != 0 {
                    s.push(WAns::Interrupted);
                }
                s.push(WAns::Accept(2));
            }
            wjobs.push((fi, s));
        }
    }
    let long = fill(255, 6, ctx.seed);
    let wlong: Vec<(u16, u8, Vec<u8>)> = vec![(0x1234, 0, long.clone()), (0xFFFF, 0xFF, fill(16, 7, ctx.seed))];
    let nshort = wframes.len();
    let mut frames_all = wframes.clone();
    frames_all.extend(wlong);
    for fi in nshort..frames_all.len() {
        let n = 13 + 2 * frames_all[fi].2.len();
        for k in [1usize, 5, 16, 100, usize::MAX] {
            wjobs.push((fi, vec![WAns::Accept(k); 4]));
            let calls = if k == usize::MAX { 1 } else { (n + k - 1) / k };
            for j in (0..=calls).step_by(if thorough { 1 } else { 3 }) {
                for a in [WAns::Fail(io::ErrorKind::Other), WAns::Zero, WAns::Interrupted] {
                    let mut s = vec![WAns::Accept(k); calls + 2];
                    s[j] = a;
                    wjobs.push((fi, s));
                }
            }
        }
    }
    let accs = par_range(wjobs.len() as u64, 256, Acc::default, |acc, i| {
        let (fi, ref script) = wjobs[i as usize];
        let (a, t, ref d) = frames_all[fi];
        acc.evals += 1;
        let (outcome, vs) = check_write(a, t, d, script);
        acc.outcomes.add(&format!("write:{}", outcome));
        acc.nontrivial_fp.push((1u64 << 40) | i);
        for (clause, class, detail) in vs {
            acc.violation(ID, Violation::new(clause, class, detail, json!({"kind": "write", "addr": a, "type": t, "data": hex(d), "answers": script.iter().map(wans_str).collect::<Vec<_>>()}), ((d.len() as u64) << 40) | ((script.len() as u64) << 28) | i));
        }
    });
    for a in accs {
        all.merge(ID, a);
    }
    all.samples.push(read_case(&ss[4].1, &[RAns::Deliver(3), RAns::Interrupted, RAns::Deliver(usize::MAX)], 4));
    all.samples.push(read_case(&ss[1].1, &[RAns::Deliver(usize::MAX), RAns::Deliver(usize::MAX), RAns::Fail(io::ErrorKind::TimedOut)], 3));
    all.samples.push(json!({"kind": "write", "frame": "(0003,02,FF)", "answers": ["A1", "I", "A2", "Z"], "expected": "Err(Io) after 3 bytes, no further write calls"}));
    let nt = rep.absorb(all);
    rep.states = nt;
    rep.transitions = rep.evaluations;
    rep.set("read_runs", json!(read_runs));
    rep.set("write_runs", json!(wjobs.len()));
    rep.set("streams", json!(ss.iter().map(|s| json!({"name": s.0, "bytes": s.1.len()})).collect::<Vec<_>>()));
    let o = rep.outcomes.clone();
    let any = |pfx: &str, ch: char| o.0.iter().any(|(k, v)| k.starts_with(pfx) && k[pfx.len()..].contains(ch) && *v > 0);
    rep.guard("reads-returned-frames", any("read:", 'k'), "some read returned a frame");
    rep.guard("reads-saw-hard-errors-and-eof", any("read:", 'F') && any("read:", 'E'), "hard errors and premature EOF reached the reader");
    rep.guard("reads-saw-invalid-lines", any("read:", 'c') && any("read:", 'm'), "bad checksum and malformed lines were returned as such");
    rep.guard("writes-ok-and-failed", o.get("write:ok") > 0 && o.get("write:io-error") > 0, format!("ok {} io-error {}", o.get("write:ok"), o.get("write:io-error")));
    rep.assumptions.push("the reader is allowed to request any size; the environment delivers at most what is asked, so over-consumption shows up as a stream position beyond the line".into());
    rep
}

pub fn replay(_ctx: &Ctx, case: &Value) -> Result<Vec<Violation>, String> {
    crate::util::ISOLATE_CASES.store(true, std::sync::atomic::Ordering::Relaxed);
    match case["kind"].as_str() {
        Some("read-after-failure") => {
            let vs = check_read_after_failure(&unhex(case["partial"].as_str().ok_or("partial")?), kind_from(case["error"].as_str().unwrap_or("Other")), &unhex(case["tape"].as_str().ok_or("tape")?), case["reads"].as_u64().unwrap_or(3) as usize);
            Ok(vs.into_iter().map(|(c, k, d)| Violation::new(c, k, d, case.clone(), 0)).collect())
        }
        Some("read") => {
            let tape = unhex(case["tape"].as_str().ok_or("tape")?);
            let script: Vec<RAns> = case["answers"].as_array().ok_or("answers")?.iter().map(|x| rans_from(x.as_str().unwrap_or("D0"))).collect();
            let (_, vs) = check_read(&tape, &script, case["reads"].as_u64().unwrap_or(4) as usize);
            Ok(vs.into_iter().map(|(c, k, d)| Violation::new(c, k, d, case.clone(), 0)).collect())
        }
        Some("write") => {
            let script: Vec<WAns> = case["answers"].as_array().ok_or("answers")?.iter().map(|x| wans_from(x.as_str().unwrap_or("A0"))).collect();
            let (_, vs) = check_write(case["addr"].as_u64().ok_or("addr")? as u16, case["type"].as_u64().ok_or("type")? as u8, &unhex(case["data"].as_str().ok_or("data")?), &script);
            Ok(vs.into_iter().map(|(c, k, d)| Violation::new(c, k, d, case.clone(), 0)).collect())
        }
        _ => Err("unknown case kind".into()),
    }
}
