//! C12 — a virtual sign never panics (E2 BFS over the real VirtualSign / VirtualSignBus + directed chains).

use flipdot_core::{Address, ChunkCount, Data, Message, Offset, Operation, State};
use flipdot_testing::VirtualSign;
use serde_json::{json, Value};

use crate::bfs::{bfs, replay_path, BfsStats};
use crate::refmodel::{msg_from_json, msg_json, msg_str, SIGN_TYPES};
use crate::report::{Acc, Ctx, Report, Violation};
use crate::signsys::*;
use crate::util::{catch, par_range};

const ID: &str = "C12";

pub fn absorb_bfs(rep: &mut Report, name: &str, stats: &BfsStats, runs: &mut Vec<Value>) {
    rep.states += stats.states;
    rep.transitions += stats.transitions;
    rep.distinct_nontrivial += stats.states.saturating_sub(1);
    rep.outcomes.merge(&stats.outcomes);
    if let Some(c) = &stats.capped {
        rep.cap(format!("{}: {}", name, c));
    }
    runs.push(json!({"run": name, "states": stats.states, "transitions": stats.transitions, "depth": stats.depth, "cut_successors_checked_not_expanded": stats.cut,
                     "transitions_without_successor": stats.dead, "frontier_sizes": stats.levels, "fixed_point": stats.capped.is_none()}));
}

/// Runs a message list on a fresh sign under the no-panic oracle. Returns violations.
pub fn run_msgs(automatic: bool, msgs: &[Message<'static>], repeat: Option<(usize, u32)>) -> Vec<(String, String, String)> {
    let mut sign = VirtualSign::new(Address(OWN), flip(automatic));
    let mut out = vec![];
    for (i, m) in msgs.iter().enumerate() {
        let times = match repeat {
            Some((idx, n)) if idx == i => n,
            _ => 1,
        };
        for k in 0..times {
            let before = sign.state();
            let r = catch(|| {
                let _ = sign.process_message(m);
            });
            if let Err(p) = r {
                out.push(("no-panic".to_string(), p.class(), format!("step {} (repetition {}) {} in state {:?} panicked: {} at {}", i, k, msg_str(m), before, p.message, p.location)));
                return out;
            }
            if let Message::DataChunksSent(_) = m {
                let ok = match before {
                    State::ConfigInProgress => matches!(sign.state(), State::ConfigReceived | State::ConfigFailed),
                    State::PixelsInProgress => matches!(sign.state(), State::PixelsReceived | State::PixelsFailed),
                    _ => true,
                };
                if !ok {
                    out.push(("count-ends-transfer".into(), format!("{:?}->{:?}", before, sign.state()), format!("count message in {:?} left the sign in {:?}", before, sign.state())));
                }
            }
        }
    }
    out
}

fn cfg_tail(block: Vec<u8>) -> Vec<Message<'static>> {
    let own = Address(OWN);
    vec![
        Message::RequestOperation(own, Operation::ReceiveConfig),
        Message::SendData(Offset(0), Data::try_new(block).unwrap()),
        Message::DataChunksSent(ChunkCount(1)),
        Message::QueryState(own),
        Message::RequestOperation(own, Operation::ReceivePixels),
        Message::SendData(Offset(0), Data::try_new(vec![0x5A; 16]).unwrap()),
        Message::DataChunksSent(ChunkCount(1)),
        Message::PixelsComplete(own),
        Message::QueryState(own),
    ]
}

fn sweep_block(i: u64) -> Vec<u8> {
    // section A: family x 3 ids ; B: Max3000 height x widths ; C: Horizon width x height
    let wvals = [0u8, 1, 0x7F, 0x80, 0xFF];
    if i < 256 * 3 {
        let mut b = custom_block(12, 8, [0x00, 0x47, 0xB1][(i % 3) as usize]);
        b[0] = (i / 3) as u8;
        b[5] = 12;
        b[7] = 12;
        return b;
    }
    let i = i - 256 * 3;
    if i < 256 * 625 {
        let mut b = custom_block(0, 0, 0xEE);
        b[4] = (i / 625) as u8;
        let mut x = i % 625;
        for k in 5..9 {
            b[k] = wvals[(x % 5) as usize];
            x /= 5;
        }
        return b;
    }
    let i = i - 256 * 625;
    if i < 65536 {
        return horizon_block((i % 256) as u8, (i / 256) as u8, 0xEE);
    }
    // generic field sweeps: both families x three base blocks
    let i = i - 65536;
    let base = |fam: u8, which: u64| -> Vec<u8> {
        let mut b = match which {
            0 => vec![0u8; 16],
            1 => vec![0xFFu8; 16],
            _ => {
                if fam == 4 {
                    flipdot_core::SignType::Max3000Front112x16.to_bytes().to_vec()
                } else {
                    flipdot_core::SignType::HorizonFront140x16.to_bytes().to_vec()
                }
            }
        };
        b[0] = fam;
        b
    };
    // D: every single position 1..16 x every value
    if i < 2 * 3 * 15 * 256 {
        let v = (i % 256) as u8;
        let p = 1 + ((i / 256) % 15) as usize;
        let which = (i / 256 / 15) % 3;
        let fam = if i / 256 / 15 / 3 == 0 { 4 } else { 8 };
        let mut b = base(fam, which);
        b[p] = v;
        return b;
    }
    let i = i - 2 * 3 * 15 * 256;
    // E: every pair of positions 2..16 x extreme values squared
    if i < 2 * 3 * 91 * 25 {
        let (va, vb) = (wvals[(i % 5) as usize], wvals[((i / 5) % 5) as usize]);
        let mut pair = (i / 25) % 91;
        let which = (i / 25 / 91) % 3;
        let fam = if i / 25 / 91 / 3 == 0 { 4 } else { 8 };
        let (mut p, mut q) = (2usize, 3usize);
        'find: for a in 2..16usize {
            for c in (a + 1)..16usize {
                if pair == 0 {
                    p = a;
                    q = c;
                    break 'find;
                }
                pair -= 1;
            }
        }
        let mut b = base(fam, which);
        b[p] = va;
        b[q] = vb;
        return b;
    }
    let i = i - 2 * 3 * 91 * 25;
    // F: every window of four consecutive positions x extreme values^4, base all-zero
    let mut x = i % 625;
    let start = 2 + ((i / 625) % 11) as usize;
    let fam = if i / 625 / 11 == 0 { 4 } else { 8 };
    let mut b = base(fam, 0);
    for k in 0..4 {
        b[start + k] = wvals[(x % 5) as usize];
        x /= 5;
    }
    b
}
const SWEEP_N: u64 = 256 * 3 + 256 * 625 + 65536 + 2 * 3 * 15 * 256 + 2 * 3 * 91 * 25 + 2 * 11 * 625;

struct SinkLogger;
impl log::Log for SinkLogger {
    fn enabled(&self, _: &log::Metadata<'_>) -> bool {
        true
    }
    fn log(&self, record: &log::Record<'_>) {
        let s = format!("{}", record.args());
        LOGGED.fetch_add(s.len() as u64, std::sync::atomic::Ordering::Relaxed);
    }
    fn flush(&self) {}
}
static LOGGER: SinkLogger = SinkLogger;
pub static LOGGED: std::sync::atomic::AtomicU64 = std::sync::atomic::AtomicU64::new(0);

pub fn run(ctx: &Ctx) -> Report {
    let mut rep = Report::new(ctx);
    let thorough = ctx.tier.thorough();
    rep.rule = "E2: breadth-first search over the real VirtualSign (state = the real struct + shadow automaton) to a fixed point under the stated size bounds, every alphabet message offered in every state; \
                plus a bus of two signs; plus directed chains (configuration-field sweep, 70000-chunk counter chains). distinct_nontrivial = distinct stored states other than the initial one \
                (each differs from its parent in the real struct) + distinct directed sequences"
        .into();
    rep.trusted_base = vec!["bfs.rs explorer".into(), "refsign.rs shadow automaton (used here only for the size bounds and vacuity witnesses)".into()];
    let mut runs = vec![];
    let mut tags_all = 0u64;
    let budget = ctx.clone();
    let deadline = move || budget.over_budget();
    let max_states = if thorough { 6_000_000 } else { 1_500_000 };

    let mut alphabets = vec![alphabet_r1(thorough), alphabet_r2()];
    if thorough {
        alphabets.push(alphabet_r2_big());
    }
    let r3: Vec<usize> = (0..11).collect();
    for i in r3 {
        alphabets.push(alphabet_r3(SIGN_TYPES[i].0, SIGN_TYPES[(i + 1) % 11].0));
    }
    for alpha in alphabets {
        for automatic in [false, true] {
            let sys = SignSys { alpha: alpha.clone(), automatic, oracle: Oracle::NoPanic };
            let res = bfs(&sys, max_states, &deadline);
            tags_all |= res.stats.tags;
            absorb_bfs(&mut rep, &crate::bfs::System::name(&sys), &res.stats, &mut runs);
            for v in res.violations {
                rep.violation(v);
            }
            for s in res.sample_paths.into_iter().take(1) {
                rep.sample(s);
            }
        }
    }
    // bus level
    for name in [if thorough { "bus-2-a" } else { "bus-2-q" }] {
        let sys = BusSys { cfg: bus_config(name).unwrap(), oracle: BusOracle::NoPanic };
        let res = bfs(&sys, max_states, &deadline);
        absorb_bfs(&mut rep, &crate::bfs::System::name(&sys), &res.stats, &mut runs);
        for v in res.violations {
            rep.violation(v);
        }
    }
    // thorough: R2 again with a logger at Trace so that every info!/debug! argument is really formatted
    if thorough {
        let _ = log::set_logger(&LOGGER);
        log::set_max_level(log::LevelFilter::Trace);
        for automatic in [false, true] {
            let sys = SignSys { alpha: alphabet_r2(), automatic, oracle: Oracle::NoPanic };
            let res = bfs(&sys, max_states, &deadline);
            absorb_bfs(&mut rep, &format!("{}+log-trace", crate::bfs::System::name(&sys)), &res.stats, &mut runs);
            for v in res.violations {
                rep.violation(v);
            }
        }
        let sys = BusSys { cfg: bus_config("bus-2-a").unwrap(), oracle: BusOracle::NoPanic };
        let res = bfs(&sys, max_states, &deadline);
        absorb_bfs(&mut rep, "bus-2-a+log-trace", &res.stats, &mut runs);
        for v in res.violations {
            rep.violation(v);
        }
        log::set_max_level(log::LevelFilter::Off);
        rep.set("bytes_of_log_text_formatted", json!(LOGGED.load(std::sync::atomic::Ordering::Relaxed)));
    }

    // configuration sweep
    let step = 1;
    let n = SWEEP_N / step;
    let accs = par_range(n, 256, Acc::default, |acc, j| {
        let i = j * step;
        let block = sweep_block(i);
        let msgs = cfg_tail(block.clone());
        for automatic in [false, true] {
            acc.evals += 1;
            let vs = run_msgs(automatic, &msgs, None);
            acc.outcomes.add(if vs.is_empty() { "sweep-ok" } else { "sweep-violation" });
            for (clause, class, detail) in vs {
                acc.violation(ID, Violation::new(&clause, class, detail, json!({"kind": "msgs", "automatic": automatic, "msgs": msgs.iter().map(msg_json).collect::<Vec<_>>()}), (1u64 << 50) + i));
            }
        }
    });
    let mut sweep = Acc::default();
    for a in accs {
        sweep.merge(ID, a);
    }
    let sweep_runs = sweep.evals;
    rep.transitions += sweep_runs * 9;
    rep.distinct_nontrivial += sweep_runs;
    rep.absorb(sweep);
    rep.set("configuration_sweep", json!({"blocks": n, "sequences": sweep_runs, "messages_each": 9, "stride": step,
        "domain": "family byte all 256 x 3 ids; Max3000 height all 256 x width bytes {0,1,7F,80,FF}^4; Horizon width all 256 x height all 256; for both families x 3 base blocks (all-00, all-FF, a real block): every single byte position x all 256 values, every pair of positions x {0,1,7F,80,FF}^2; every window of 4 consecutive positions x {0,1,7F,80,FF}^4"}));

    // counter chains
    let own = Address(OWN);
    let reps = 70_000u32;
    let chains: Vec<(&str, Vec<Message<'static>>, usize)> = vec![
        (
            "config-in-progress x70000 valid blocks",
            vec![Message::RequestOperation(own, Operation::ReceiveConfig), Message::SendData(Offset(0), Data::try_new(custom_block(12, 8, 0xEE)).unwrap()), Message::DataChunksSent(ChunkCount(4464)), Message::QueryState(own)],
            1,
        ),
        (
            "pixels-in-progress x70000 empty chunks at offset 16",
            vec![
                Message::RequestOperation(own, Operation::ReceiveConfig),
                Message::SendData(Offset(0), Data::try_new(custom_block(12, 8, 0xEE)).unwrap()),
                Message::DataChunksSent(ChunkCount(1)),
                Message::RequestOperation(own, Operation::ReceivePixels),
                Message::SendData(Offset(16), Data::try_new(Vec::<u8>::new()).unwrap()),
                Message::DataChunksSent(ChunkCount(4464)),
                Message::QueryState(own),
            ],
            4,
        ),
        (
            "pixels-in-progress x70000 16-byte pages at offset 0",
            vec![
                Message::RequestOperation(own, Operation::ReceiveConfig),
                Message::SendData(Offset(0), Data::try_new(custom_block(12, 8, 0xEE)).unwrap()),
                Message::DataChunksSent(ChunkCount(1)),
                Message::RequestOperation(own, Operation::ReceivePixels),
                Message::SendData(Offset(0), Data::try_new(vec![0x33u8; 16]).unwrap()),
                Message::DataChunksSent(ChunkCount(4464)),
                Message::QueryState(own),
            ],
            4,
        ),
    ];
    for (k, (name, msgs, idx)) in chains.iter().enumerate() {
        for automatic in [false, true] {
            rep.evaluations += 1;
            rep.transitions += reps as u64 + msgs.len() as u64;
            rep.distinct_nontrivial += 1;
            let vs = run_msgs(automatic, msgs, Some((*idx, reps)));
            rep.outcomes.add(if vs.is_empty() { "chain-ok" } else { "chain-violation" });
            for (clause, class, detail) in vs {
                rep.violation(Violation::new(
                    &clause,
                    class,
                    format!("{}: {}", name, detail),
                    json!({"kind": "chain", "automatic": automatic, "msgs": msgs.iter().map(msg_json).collect::<Vec<_>>(), "repeat_index": idx, "times": reps}),
                    (2u64 << 50) + k as u64,
                ));
            }
        }
    }
    rep.set("counter_chains", json!(chains.iter().map(|c| c.0).collect::<Vec<_>>()));
    rep.set("bfs_runs", Value::Array(runs));
    rep.sample(json!({"directed": "ReceiveConfig, SendData(0, block family=04 h=FF widths FF,FF,FF,FF), DataChunksSent(1), Query, ReceivePixels, SendData(0,16 bytes), DataChunksSent(1), PixelsComplete, Query"}));

    // vacuity guards
    let panics_found = rep.violations.values().any(|v| v.clause == "no-panic");
    let mut missing = vec![];
    for (i, s) in crate::refmodel::STATES.iter().enumerate() {
        if tags_all & (T_STATE << i) == 0 {
            missing.push(format!("{:?}", s.0));
        }
    }
    rep.guard("all-13-protocol-states-reached", missing.is_empty() || panics_found, format!("missing: {:?}", missing));
    let mut ops_missing = vec![];
    for (i, o) in crate::refmodel::OPS.iter().enumerate() {
        if tags_all & (T_ACK << i) == 0 {
            ops_missing.push(format!("{:?} never acknowledged", o.0));
        }
        if tags_all & (T_REFUSED << i) == 0 && o.0 != Operation::StartReset {
            ops_missing.push(format!("{:?} never refused", o.0));
        }
    }
    rep.guard("every-operation-acked-and-refused", ops_missing.is_empty() || panics_found, format!("{:?}", ops_missing));
    rep.guard("page-stored", tags_all & T_PAGE_STORED != 0 || panics_found, "at least one transition stored a page");
    rep.guard("received-and-failed-reached", (tags_all & T_RECEIVED != 0 && tags_all & T_FAILED != 0) || panics_found, "both transfer outcomes seen");
    rep.guard("wrong-length-buffer-exercised", tags_all & T_BADPAGE_DROPPED != 0 || panics_found, "a transfer with a buffer that is not one complete page was flushed");
    rep.assumptions.push("size bounds per run (buffered bytes, counted chunks, stored pages) as listed in DESIGN.md §4 C12; data values: uniform fill / three colours / listed configuration fields".into());
    rep
}

pub fn replay(_ctx: &Ctx, case: &Value) -> Result<Vec<Violation>, String> {
    let mk = |vs: Vec<(String, String, String)>| vs.into_iter().map(|(c, k, d)| Violation::new(&c, k, d, case.clone(), 0)).collect::<Vec<_>>();
    match case["kind"].as_str() {
        Some("path") => {
            let path: Vec<usize> = case["actions"].as_array().ok_or("actions")?.iter().map(|x| x.as_u64().unwrap() as usize).collect();
            let sysj = &case["system"];
            match sysj["system"].as_str() {
                Some("sign") => {
                    let alpha = alphabet_by_name(sysj["alphabet"].as_str().ok_or("alphabet")?).ok_or("unknown alphabet")?;
                    let sys = SignSys { alpha, automatic: sysj["automatic"].as_bool().unwrap_or(false), oracle: Oracle::NoPanic };
                    Ok(mk(replay_path(&sys, &path)?))
                }
                Some("bus") => {
                    let sys = BusSys { cfg: bus_config(sysj["config"].as_str().ok_or("config")?).ok_or("unknown bus config")?, oracle: BusOracle::NoPanic };
                    Ok(mk(replay_path(&sys, &path)?))
                }
                _ => Err("unknown system".into()),
            }
        }
        Some("msgs") | Some("chain") => {
            let msgs: Vec<Message<'static>> = case["msgs"].as_array().ok_or("msgs")?.iter().map(msg_from_json).collect();
            let rep = if case["kind"] == "chain" { Some((case["repeat_index"].as_u64().ok_or("repeat_index")? as usize, case["times"].as_u64().ok_or("times")? as u32)) } else { None };
            Ok(mk(run_msgs(case["automatic"].as_bool().unwrap_or(false), &msgs, rep)))
        }
        _ => Err("unknown case kind".into()),
    }
}
