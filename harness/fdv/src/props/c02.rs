//! C02 — corrupted wire frames are rejected, never decoded as a different frame
//! (E1: exhaustive single-fault enumeration over the wire string of every base frame).

use flipdot_core::{Address, Data, Frame, MsgType};
use serde_json::{json, Value};

use crate::refmodel::{ref_encode, ref_parse, RefParse};
use crate::report::{Acc, Ctx, Report, Violation};
use crate::util::{catch, fill, fnv, hex, par_range, show_bytes, unhex};

const ID: &str = "C02";

/// Decode a damaged string; property: Err(_) or exactly the original frame. Returns (outcome-class, violation).
pub fn check_damaged(orig: (u16, u8, &[u8]), damaged: &[u8], strict_err: bool) -> (String, Option<(&'static str, String, String)>) {
    let (addr, typ, data) = orig;
    let r = catch(|| Frame::from_bytes(damaged));
    match r {
        Err(p) => (
            "panic".into(),
            Some(("no-panic", p.class(), format!("decoding {} panicked: {}", show_bytes(damaged), p.message))),
        ),
        Ok(Err(e)) => {
            let class = match e {
                flipdot_core::FrameError::InvalidFrame { .. } => "err:malformed",
                flipdot_core::FrameError::FrameDataMismatch { .. } => "err:length",
                flipdot_core::FrameError::BadChecksum { .. } => "err:checksum",
                _ => "err:other",
            };
            (class.into(), None)
        }
        Ok(Ok(f)) => {
            let same = f.address() == Address(addr)
                && f.message_type() == MsgType(typ)
                && f.data().as_ref() == data
                && f == Frame::new(Address(addr), MsgType(typ), Data::try_new(data.to_vec()).unwrap());
            if strict_err {
                (
                    "accepted".into(),
                    Some((
                        "inconsistent-never-accepted",
                        if same { "accepted-as-original".into() } else { "accepted-as-other".into() },
                        format!("{} (wrong length field or checksum) was accepted as {:?}", show_bytes(damaged), f),
                    )),
                )
            } else if same {
                ("ok:original".into(), None)
            } else {
                (
                    "accepted-other".into(),
                    Some((
                        "damaged-not-misdecoded",
                        "accepted-as-other".into(),
                        format!("damaged {} decoded as a different frame {:?}", show_bytes(damaged), f),
                    )),
                )
            }
        }
    }
}

/// All single-fault damages of `s`, in a fixed order; calls f(kind, damaged).
pub fn for_each_damage(s: &[u8], mut f: impl FnMut(&'static str, &[u8])) {
    let mut buf = Vec::with_capacity(s.len() + 1);
    // substitutions
    for i in 0..s.len() {
        for v in 0..=255u8 {
            if v == s[i] {
                continue;
            }
            buf.clear();
            buf.extend_from_slice(s);
            buf[i] = v;
            f("substitute", &buf);
        }
    }
    // deletions
    for i in 0..s.len() {
        buf.clear();
        buf.extend_from_slice(&s[..i]);
        buf.extend_from_slice(&s[i + 1..]);
        f("delete", &buf);
    }
    // duplications
    for i in 0..s.len() {
        buf.clear();
        buf.extend_from_slice(&s[..=i]);
        buf.extend_from_slice(&s[i..]);
        f("duplicate", &buf);
    }
    // adjacent transpositions of unequal bytes
    for i in 0..s.len().saturating_sub(1) {
        if s[i] == s[i + 1] {
            continue;
        }
        buf.clear();
        buf.extend_from_slice(s);
        buf.swap(i, i + 1);
        f("transpose", &buf);
    }
    // proper prefixes
    for i in 0..s.len() {
        f("truncate", &s[..i]);
    }
}

fn hexpair(v: u8) -> [u8; 2] {
    let d = |n: u8| if n < 10 { b'0' + n } else { b'A' + n - 10 };
    [d(v / 16), d(v % 16)]
}

/// Strings in which only the length field is wrong (checksum consistent with the wrong length), and in
/// which only the checksum is wrong.
pub fn for_each_inconsistent(addr: u16, typ: u8, data: &[u8], newline: bool, mut f: impl FnMut(&'static str, &[u8])) {
    let good = ref_encode(addr, typ, data, newline);
    let true_len = data.len() as u8;
    let sum_rest: u32 = (addr >> 8) as u32 + (addr & 0xFF) as u32 + typ as u32 + data.iter().map(|&b| b as u32).sum::<u32>();
    let chk_pos = 1 + 2 * (4 + data.len());
    for l in 0..=255u8 {
        if l == true_len {
            continue;
        }
        let mut s = good.clone();
        s[1..3].copy_from_slice(&hexpair(l));
        let chk = ((256 - ((sum_rest + l as u32) % 256)) % 256) as u8;
        s[chk_pos..chk_pos + 2].copy_from_slice(&hexpair(chk));
        f("wrong-length", &s);
        // and with the checksum left as it was (consistent with the TRUE length): declared length still disagrees
        let mut s2 = good.clone();
        s2[1..3].copy_from_slice(&hexpair(l));
        f("wrong-length-original-checksum", &s2);
    }
    // more than 255 data bytes on the wire with a length field that agrees modulo 256 (checksum consistent)
    if data.len() <= 3 {
        for extra in [256usize, 512] {
            let mut long: Vec<u8> = data.to_vec();
            long.extend((0..extra).map(|j| (j * 5 + 1) as u8));
            let sum: u32 = true_len as u32 + (addr >> 8) as u32 + (addr & 0xFF) as u32 + typ as u32 + long.iter().map(|&b| b as u32).sum::<u32>();
            let chk = ((256 - (sum % 256)) % 256) as u8;
            let mut s = vec![b':'];
            for b in [true_len, (addr >> 8) as u8, (addr & 0xFF) as u8, typ].iter().chain(long.iter()).chain([chk].iter()) {
                s.extend_from_slice(&hexpair(*b));
            }
            if newline {
                s.extend_from_slice(b"\r\n");
            }
            f("length-field-wraps", &s);
        }
    }
    let good_chk = ((256 - ((sum_rest + true_len as u32) % 256)) % 256) as u8;
    for c in 0..=255u8 {
        if c == good_chk {
            continue;
        }
        let mut s = good.clone();
        s[chk_pos..chk_pos + 2].copy_from_slice(&hexpair(c));
        f("wrong-checksum", &s);
    }
}

fn base_frames(thorough: bool, seed: u64) -> Vec<(u16, u8, Vec<u8>)> {
    let addrs: [u16; 10] = [0, 1, 0x7F, 0x80, 0xFF, 0x100, 0x1234, 0x8000, 0xABCD, 0xFFFF];
    let types: [u8; 10] = [0, 1, 2, 3, 4, 5, 6, 0x7F, 0x80, 0xFF];
    let mut datas: Vec<Vec<u8>> = vec![vec![]];
    for v in [0x00u8, 0x01, 0x0F, 0x10, 0x55, 0x7F, 0x80, 0xA2, 0xFF] {
        datas.push(vec![v]);
    }
    for (a, b) in [(0u8, 0u8), (0, 1), (1, 0), (0xFF, 0xFF), (0xAB, 0xCD), (0x0A, 0xA0), (0x10, 0x01), (0x7F, 0x80), (0xF0, 0x0F)] {
        datas.push(vec![a, b]);
    }
    datas.push(vec![1, 2, 3]);
    datas.push(vec![0xFF, 0, 0xFF]);
    datas.push(vec![0xAA, 0xAA, 0xAA]);
    datas.push(fill(16, 1, seed));
    if thorough {
        datas.push(vec![0xFF; 16]);
    }
    let mut out = vec![];
    for &a in &addrs {
        for &t in &types {
            for d in &datas {
                out.push((a, t, d.clone()));
            }
        }
    }
    out.extend(embedded_bases());
    if thorough {
        // long frames: fewer address/type combinations (521-byte strings x 255 replacements each)
        for (a, t) in [(0u16, 0u8), (0xFFFF, 0xFF), (0x1234, 0), (0xABCD, 0x80)] {
            out.push((a, t, fill(255, 2, seed)));
            out.push((a, t, vec![0xFF; 255]));
        }
        out.push((0x0010, 0, fill(128, 3, seed)));
    } else {
        out.push((0x0010, 0, fill(64, 3, seed)));
    }
    out
}

/// Adversarial bases for anchoring shortcuts: valid frames whose wire string, after ONE substitution of a
/// low-nibble digit by ':', ends in a complete valid inner frame (a decoder that searches instead of
/// anchoring would return the inner frame). Outer bytes = prefix (summing to 0 mod 256) ++ inner bytes.
fn embedded_bases() -> Vec<(u16, u8, Vec<u8>)> {
    let inners: [(u16, u8, Vec<u8>); 4] = [(0x007F, 2, vec![]), (0x0003, 2, vec![0xFF]), (0x1234, 0, vec![1, 2]), (0xABCD, 4, vec![0x10])];
    let mut out = vec![];
    for (ia, it, id) in inners.iter() {
        let mut inner: Vec<u8> = vec![id.len() as u8, (ia >> 8) as u8, (ia & 0xFF) as u8, *it];
        inner.extend_from_slice(id);
        let chk = inner.iter().fold(0u8, |a, &b| a.wrapping_sub(b));
        inner.push(chk);
        for s in 2..=7usize {
            let total = s + inner.len();
            let b0 = (total - 5) as u8;
            let mut bytes = vec![0u8; s];
            bytes[0] = b0;
            bytes[s - 1] = bytes[s - 1].wrapping_add(0u8.wrapping_sub(b0));
            if s == 1 {
                continue;
            }
            bytes.extend_from_slice(&inner);
            let addr = (bytes[1] as u16) << 8 | bytes[2] as u16;
            let typ = bytes[3];
            let data = bytes[4..bytes.len() - 1].to_vec();
            // self-check of the construction: it must be a valid frame
            let wire = ref_encode(addr, typ, &data, false);
            assert_eq!(wire.len(), 1 + 2 * bytes.len());
            assert!(matches!(ref_parse(&wire), RefParse::Accept { .. }));
            let mut cut = wire[2 * s + 1..].to_vec();
            cut.insert(0, b':');
            assert!(matches!(ref_parse(&cut), RefParse::Accept { .. }), "embedded tail must be a frame");
            out.push((addr, typ, data));
        }
    }
    out
}

/// The same promise through `Frame::read`, with history: a read that FAILS after consuming a partial line (the
/// stream breaks with a hard error), then, on the same thread, a read of a damaged line. The second read must give
/// an error or exactly the original frame — leftovers of the failed read must not complete the damaged line.
pub fn check_read_after_failed_read(prefix: &[u8], orig: (u16, u8, &[u8]), damaged_line: &[u8]) -> Option<(&'static str, String, String)> {
    use crate::devices::{new_log, RAns, ScriptIo};
    let (addr, typ, data) = (orig.0, orig.1, orig.2.to_vec());
    let (prefix, damaged_line) = (prefix.to_vec(), damaged_line.to_vec());
    crate::util::in_fresh_thread(move || {
        let log = new_log();
        let mut first = ScriptIo::new(prefix.clone(), log.clone());
        first.at_end = RAns::Fail(std::io::ErrorKind::TimedOut);
        let r1 = catch(|| Frame::read(&mut first).is_ok());
        let mut second = ScriptIo::new(damaged_line.clone(), log);
        let r2 = catch(|| Frame::read(&mut second));
        match (r1, r2) {
            (Err(p), _) | (_, Err(p)) => Some(("no-panic", p.class(), format!("Frame::read panicked: {}", p.message))),
            (Ok(_), Ok(Err(_))) => None,
            (Ok(_), Ok(Ok(f))) => {
                if f.address() == Address(addr) && f.message_type() == MsgType(typ) && f.data().as_ref() == &data[..] {
                    None
                } else {
                    Some(("damaged-not-misdecoded", "read-after-failed-read:accepted-as-other".into(), format!("after a read that failed on the partial line {}, reading the damaged line {} returned a different frame {:?}", show_bytes(&prefix), show_bytes(&damaged_line), f)))
                }
            }
        }
    })
}

fn case_json(orig: (u16, u8, &[u8]), damaged: &[u8], strict: bool, kind: &str) -> Value {
    json!({"kind": "damaged", "addr": orig.0, "type": orig.1, "data": hex(orig.2), "damage": kind, "wire": hex(damaged), "wire_shown": show_bytes(damaged), "strict": strict})
}

pub fn run(ctx: &Ctx) -> Report {
    let mut rep = Report::new(ctx);
    let thorough = ctx.tier.thorough();
    let bases = base_frames(thorough, ctx.seed);
    rep.rule = "for every base frame and both encodings: every single substitution (255 per position), deletion, duplication, unequal adjacent transposition and proper prefix, \
                plus every wrong length-field value (checksum made consistent), every wrong checksum value, strings with more than 255 data bytes whose count agrees with the length field modulo 256, and (through Frame::read) a damaged line read after a failed read left a partial line behind; a damaged string is non-trivial when it still has the documented \
                shape (the reference parser does not call it malformed), i.e. it survives the structural check and is decided by length/checksum; distinct by wire bytes"
        .into();
    rep.trusted_base = vec!["refmodel::ref_encode".into(), "refmodel::ref_parse (only to classify non-trivial cases, not for the verdict)".into()];
    let n = bases.len() as u64 * 2;
    let accs = par_range(n, 1, Acc::default, |acc, i| {
        let (addr, typ, ref data) = bases[(i / 2) as usize];
        let newline = i % 2 == 1;
        let wire = ref_encode(addr, typ, data, newline);
        // sanity: the undamaged string decodes to the original (otherwise C01's business, but guard here)
        let mut k = 0u64;
        for_each_damage(&wire, |kind, dmg| {
            acc.evals += 1;
            k += 1;
            let (class, v) = check_damaged((addr, typ, data), dmg, false);
            acc.outcomes.add(&format!("{}:{}", kind, class));
            if !matches!(ref_parse(dmg), RefParse::Malformed) {
                acc.nontrivial_fp.push(fnv(dmg));
            }
            if let Some((clause, cl, detail)) = v {
                acc.violation(ID, Violation::new(clause, format!("{}:{}", kind, cl), detail, case_json((addr, typ, data), dmg, false, kind), (wire.len() as u64) << 32 | k));
            }
        });
        for_each_inconsistent(addr, typ, data, newline, |kind, dmg| {
            acc.evals += 1;
            k += 1;
            let (class, v) = check_damaged((addr, typ, data), dmg, true);
            acc.outcomes.add(&format!("{}:{}", kind, class));
            acc.nontrivial_fp.push(fnv(dmg));
            if let Some((clause, cl, detail)) = v {
                acc.violation(ID, Violation::new(clause, format!("{}:{}", kind, cl), detail, case_json((addr, typ, data), dmg, true, kind), (wire.len() as u64) << 32 | k));
            }
        });
        if i % 997 == 3 && acc.samples.len() < 3 {
            let mut d = wire.clone();
            d[3] = b'x';
            acc.samples.push(json!({"base": show_bytes(&wire), "one_damage": show_bytes(&d), "decoded": format!("{:?}", Frame::from_bytes(&d).map_err(|e| e.to_string()))}));
        }
    });
    let mut all = Acc::default();
    for a in accs {
        all.merge(ID, a);
    }
    // decode history: on a fresh thread first decode the frame itself and a long valid frame (255 bytes of 0x11, then 16),
    // then every proper prefix / single deletion of the frame's wire string; still "error or the original"
    let long1 = ref_encode(0x0003, 0, &[0x11; 255], true);
    let long2 = ref_encode(0x0003, 0, &[0x11; 16], true);
    let hist_bases: Vec<usize> = (0..bases.len()).filter(|&i| bases[i].2.len() <= 16 && (i % 7 == 0 || bases[i].2.len() >= 2)).take(if thorough { 400 } else { 120 }).collect();
    // plus two frame shapes with every byte value at every data position: after a truncation one of the data bytes
    // lands in the checksum position, and a decoder that fills the missing tail from stale bytes accepts the string
    // exactly when that byte has one particular value
    let mut hist_frames: Vec<(u16, u8, Vec<u8>)> = hist_bases.iter().map(|&i| bases[i].clone()).collect();
    for v in 0..=255u8 {
        for pos in 0..2 {
            let mut d = vec![0xFE, 0x07];
            d[pos] = v;
            hist_frames.push((0x0000, 0, d));
        }
        for pos in 0..4 {
            let mut d = vec![0x40, 0x86, 0x01, 0x02];
            d[pos] = v;
            hist_frames.push((0x0003, 0, d));
        }
    }
    let accs = par_range(hist_frames.len() as u64, 1, Acc::default, |acc, i| {
        let (addr, typ, ref data) = hist_frames[i as usize];
        let wire = ref_encode(addr, typ, data, false);
        let mut damages: Vec<Vec<u8>> = vec![];
        for k in 0..wire.len() {
            damages.push(wire[..k].to_vec());
            let mut d = wire.clone();
            d.remove(k);
            damages.push(d);
        }
        let (w2, l1, l2, d2) = (wire.clone(), long1.clone(), long2.clone(), data.clone());
        let results: Vec<Option<(&'static str, String, String)>> = crate::util::in_fresh_thread(move || {
            let mut out = vec![];
            for dmg in &damages {
                let _ = catch(|| Frame::from_bytes(&w2).is_ok());
                let _ = catch(|| Frame::from_bytes(&l1).is_ok());
                let _ = catch(|| Frame::from_bytes(&l2).is_ok());
                let (_, v) = check_damaged((addr, typ, &d2), dmg, false);
                out.push(v);
            }
            out
        });
        acc.evals += results.len() as u64;
        acc.outcomes.addn("after-earlier-decodes", results.len() as u64);
        for (k, v) in results.into_iter().enumerate() {
            if let Some((clause, cl, detail)) = v {
                let dmg: Vec<u8> = if k % 2 == 0 { wire[..k / 2].to_vec() } else { let mut d = wire.clone(); d.remove(k / 2); d };
                acc.violation(ID, Violation::new(clause, format!("after-earlier-decodes:{}", cl), format!("after decoding the frame itself and two longer frames on the same thread: {}", detail), json!({"kind": "decode-history", "addr": addr, "type": typ, "data": hex(data), "wire": hex(&dmg)}), (1u64 << 49) | (i << 12) | k as u64));
            }
        }
    });
    for a in accs {
        all.merge(ID, a);
    }
    // sibling history (after seed C02-w7-1: a memo of the last decoded line keyed on length, header and checksum
    // characters): on a fresh thread first decode a DIFFERENT valid frame that agrees with the base in length, address,
    // type and checksum (two data bytes swapped, or one raised and one lowered by 1), then every single substitution of a
    // data character of the base by another hex digit or one of four other bytes; still "error or the original"
    let mut sib_frames: Vec<(u16, u8, Vec<u8>, Vec<u8>)> = vec![];
    for (addr, typ) in [(0x0003u16, 0u8), (0xFE12, 0), (0x0000, 4), (0x0103, 2)] {
        for data in [vec![0x12u8, 0x34], vec![0x00, 0xFF, 0x7E], vec![1, 2, 3, 4], (0..16u8).map(|j| j.wrapping_mul(17).wrapping_add(3)).collect::<Vec<u8>>()] {
            let n = data.len();
            for (a, b) in [(0usize, 1usize), (0, n - 1), (n / 2, n - 1)] {
                if a == b || data[a] == data[b] {
                    continue;
                }
                let mut s = data.clone();
                s.swap(a, b);
                sib_frames.push((addr, typ, data.clone(), s));
                let mut s = data.clone();
                s[a] = s[a].wrapping_add(1);
                s[b] = s[b].wrapping_sub(1);
                sib_frames.push((addr, typ, data.clone(), s));
            }
        }
    }
    let accs = par_range(sib_frames.len() as u64, 1, Acc::default, |acc, i| {
        let (addr, typ, ref data, ref sib) = sib_frames[i as usize];
        for newline in [false, true] {
            let wire = ref_encode(addr, typ, data, newline);
            let sibw = ref_encode(addr, typ, sib, newline);
            let mut damages: Vec<Vec<u8>> = vec![];
            for k in 9..9 + 2 * data.len() {
                for &v in b"0123456789ABCDEFabcdef:g \x00" {
                    if v != wire[k] {
                        let mut d = wire.clone();
                        d[k] = v;
                        damages.push(d);
                    }
                }
            }
            let (d2, dm2) = (data.clone(), damages.clone());
            let results: Vec<Option<(&'static str, String, String)>> = crate::util::in_fresh_thread(move || {
                let mut out = vec![];
                for dmg in &dm2 {
                    let _ = catch(|| Frame::from_bytes(&sibw).is_ok());
                    let (_, v) = check_damaged((addr, typ, &d2), dmg, false);
                    out.push(v);
                }
                out
            });
            acc.evals += results.len() as u64;
            acc.outcomes.addn("after-sibling-decode", results.len() as u64);
            for (k, v) in results.into_iter().enumerate() {
                if let Some((clause, cl, detail)) = v {
                    acc.violation(ID, Violation::new(clause, format!("after-sibling-decode:{}", cl), format!("after decoding a different valid frame with the same length, header and checksum on the same thread: {}", detail), json!({"kind": "sibling-history", "addr": addr, "type": typ, "data": hex(data), "sibling": hex(sib), "newline": newline, "wire": hex(&damages[k])}), (1u64 << 51) | (i << 16) | k as u64));
                }
            }
        }
    });
    for a in accs {
        all.merge(ID, a);
    }
    // read path with history: every prefix (1..=6 bytes) of three valid lines is left behind by a failed read; then each
    // base line with its first byte replaced by every other value is read on the same thread
    let prefix_sources: Vec<Vec<u8>> = vec![ref_encode(0xFE00, 0, &[7, 3], true), ref_encode(0x0003, 2, &[0xFF], true), ref_encode(0x00FD, 0, &[0, 0x7F, 2], true)];
    let second_lines: Vec<(u16, u8, Vec<u8>)> = vec![(0x0007, 3, vec![]), (0x007F, 2, vec![]), (0x0003, 2, vec![0xFF]), (0x0010, 0, vec![1, 2, 3])];
    let mut hjobs: Vec<(Vec<u8>, usize, u8)> = vec![];
    for ps in &prefix_sources {
        for l in 1..=6usize.min(ps.len()) {
            for (bi, _) in second_lines.iter().enumerate() {
                for v in 0..=255u8 {
                    if v != b':' {
                        hjobs.push((ps[..l].to_vec(), bi, v));
                    }
                }
            }
        }
    }
    let accs = par_range(hjobs.len() as u64, 64, Acc::default, |acc, i| {
        let (ref prefix, bi, v) = hjobs[i as usize];
        let (a, t, ref d) = second_lines[bi];
        let mut line = ref_encode(a, t, d, true);
        line[0] = v;
        acc.evals += 1;
        acc.outcomes.add("read-after-failed-read");
        acc.nontrivial_fp.push((1u64 << 60) | i);
        if let Some((clause, class, detail)) = check_read_after_failed_read(prefix, (a, t, d), &line) {
            acc.violation(ID, Violation::new(clause, class, detail, json!({"kind": "read-history", "prefix": hex(prefix), "addr": a, "type": t, "data": hex(d), "line": hex(&line)}), (1u64 << 50) | i));
        }
    });
    for a in accs {
        all.merge(ID, a);
    }
    let nt = rep.absorb(all);
    rep.states = nt;
    rep.transitions = rep.evaluations;
    rep.set("read_path_history_sequences", json!(hjobs.len()));
    rep.set("base_frames", json!(bases.len()));
    rep.set("encodings_per_frame", json!(2));
    rep.set("longest_wire_string", json!(bases.iter().map(|b| 13 + 2 * b.2.len()).max()));
    let h = rep.outcomes.clone();
    let case_accept: u64 = h.get("substitute:ok:original");
    rep.guard("case-change-accepted-as-original", case_accept > 0 || !rep.violations.is_empty(), format!("{} substitutions (hex letter case) decoded to the original", case_accept));
    rep.guard("crlf-loss-accepted-as-original", h.get("truncate:ok:original") > 0 || !rep.violations.is_empty(), "dropping the whole CRLF yields the original");
    rep.guard("checksum-errors-seen", h.get("substitute:err:checksum") > 0, "substitutions reached the checksum comparison");
    rep.assumptions.push("base frames: 10 addresses x 10 types x the listed data blocks (lengths 0,1,2,3,16 and 64/128/255); all 256 replacement bytes at every position".into());
    rep
}

pub fn replay(_ctx: &Ctx, case: &Value) -> Result<Vec<Violation>, String> {
    if case["kind"].as_str() == Some("decode-history") {
        let (addr, typ) = (case["addr"].as_u64().ok_or("addr")? as u16, case["type"].as_u64().ok_or("type")? as u8);
        let data = unhex(case["data"].as_str().ok_or("data")?);
        let dmg = unhex(case["wire"].as_str().ok_or("wire")?);
        let wire = ref_encode(addr, typ, &data, false);
        let (l1, l2) = (ref_encode(0x0003, 0, &[0x11; 255], true), ref_encode(0x0003, 0, &[0x11; 16], true));
        let v = crate::util::in_fresh_thread(move || {
            let _ = catch(|| Frame::from_bytes(&wire).is_ok());
            let _ = catch(|| Frame::from_bytes(&l1).is_ok());
            let _ = catch(|| Frame::from_bytes(&l2).is_ok());
            check_damaged((addr, typ, &data), &dmg, false).1
        });
        return Ok(v.into_iter().map(|(c, k, d)| Violation::new(c, format!("after-earlier-decodes:{}", k), d, case.clone(), 0)).collect());
    }
    if case["kind"].as_str() == Some("sibling-history") {
        let (addr, typ) = (case["addr"].as_u64().ok_or("addr")? as u16, case["type"].as_u64().ok_or("type")? as u8);
        let data = unhex(case["data"].as_str().ok_or("data")?);
        let sib = unhex(case["sibling"].as_str().ok_or("sibling")?);
        let dmg = unhex(case["wire"].as_str().ok_or("wire")?);
        let sibw = ref_encode(addr, typ, &sib, case["newline"].as_bool().unwrap_or(false));
        let v = crate::util::in_fresh_thread(move || {
            let _ = catch(|| Frame::from_bytes(&sibw).is_ok());
            check_damaged((addr, typ, &data), &dmg, false).1
        });
        return Ok(v.into_iter().map(|(c, k, d)| Violation::new(c, format!("after-sibling-decode:{}", k), d, case.clone(), 0)).collect());
    }
    if case["kind"].as_str() == Some("read-history") {
        let d = unhex(case["data"].as_str().ok_or("data")?);
        let v = check_read_after_failed_read(&unhex(case["prefix"].as_str().ok_or("prefix")?), (case["addr"].as_u64().ok_or("addr")? as u16, case["type"].as_u64().ok_or("type")? as u8, &d), &unhex(case["line"].as_str().ok_or("line")?));
        return Ok(v.into_iter().map(|(c, k, d)| Violation::new(c, k, d, case.clone(), 0)).collect());
    }
    if case["kind"].as_str() != Some("damaged") {
        return Err("unknown case kind".into());
    }
    let addr = case["addr"].as_u64().ok_or("addr")? as u16;
    let typ = case["type"].as_u64().ok_or("type")? as u8;
    let data = unhex(case["data"].as_str().ok_or("data")?);
    let wire = unhex(case["wire"].as_str().ok_or("wire")?);
    let strict = case["strict"].as_bool().unwrap_or(false);
    let kind = case["damage"].as_str().unwrap_or("?");
    let (_, v) = check_damaged((addr, typ, &data), &wire, strict);
    Ok(v.into_iter().map(|(c, k, d)| Violation::new(c, format!("{}:{}", kind, k), d, case.clone(), 0)).collect())
}
