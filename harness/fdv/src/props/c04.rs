//! C04 — Frame -> Message -> Frame is the identity and follows the protocol code table (E1).

use flipdot_core::{Address, Data, Frame, Message, MsgType};
use serde_json::{json, Value};

use crate::refmodel::{kind_name, msg_str, ref_classify, OPS, STATES};
use crate::report::{Acc, Ctx, Report, Violation};
use crate::util::{catch, fill, fnv, fnv_mix, hex, par_range, unhex};

const ID: &str = "C04";

pub fn check_frame(addr: u16, typ: u8, data: &[u8]) -> (String, Vec<(&'static str, String, String)>) {
    let want = ref_classify(addr, typ, data);
    let want_kind = kind_name(&want);
    let r = catch(|| {
        let frame = Frame::new(Address(addr), MsgType(typ), Data::try_new(data.to_vec()).unwrap());
        let msg = Message::from(frame.clone());
        let back = Frame::from(msg.clone());
        (frame, msg, back)
    });
    let mut out = vec![];
    match r {
        Err(p) => out.push(("no-panic", p.class(), format!("conversion panicked: {}", p.message))),
        Ok((frame, msg, back)) => {
            if back != frame {
                out.push((
                    "identity",
                    format!("type{:02X}-len{}", typ, data.len().min(3)),
                    format!("frame ({:04X},{:02X},{}) -> {} -> frame ({:04X},{:02X},{})", addr, typ, hex(data), msg_str(&msg), back.address().0, back.message_type().0, hex(back.data())),
                ));
            }
            if msg != want {
                let lenclass = match data.len() {
                    0 => "len0",
                    1 => "len1",
                    _ => "len2+",
                };
                out.push((
                    "table",
                    format!("want-{}-got-{}-type{:02X}-{}", want_kind, kind_name(&msg), typ, lenclass),
                    format!("frame ({:04X},{:02X},{}) was interpreted as {} but the protocol table says {}", addr, typ, hex(data), msg_str(&msg), msg_str(&want)),
                ));
            }
        }
    }
    (want_kind.to_string(), out)
}

fn eval(acc: &mut Acc, addr: u16, typ: u8, data: &[u8], order: u64) {
    acc.evals += 1;
    let (kind, vs) = check_frame(addr, typ, data);
    acc.outcomes.add(&kind);
    if kind != "Unknown" {
        acc.nontrivial_fp.push(fnv_mix(fnv_mix(fnv(data), addr as u64), typ as u64 + 0x100));
    }
    for (clause, class, detail) in vs {
        acc.violation(ID, Violation::new(clause, class, detail, json!({"kind": "frame", "addr": addr, "type": typ, "data": hex(data)}), order));
    }
}

pub fn run(ctx: &Ctx) -> Report {
    let mut rep = Report::new(ctx);
    let seed = ctx.seed;
    let thorough = ctx.tier.thorough();
    rep.rule = "every (type 0..=255) x (first data byte 0..=255) x length in {0,1,2,3,16,255} x address set x tail variant, plus all 65536 addresses for each recognised code and for \
                type-0 frames of length 0,1,2,16; each frame goes Frame -> Message -> Frame through the real conversions and is compared with a literal copy of the protocol table. \
                Non-trivial = frames the table recognises as a specific (non-Unknown) message; distinct by (addr,type,data)"
        .into();
    rep.trusted_base = vec!["refmodel::ref_classify + STATES/OPS tables (literal protocol code table)".into()];
    let lens = [0usize, 1, 2, 3, 16, 255];
    let addrs: [u16; 5] = [0, 3, 0x7F, 0xABCD, 0xFFFF];
    // tails: fill pattern, and the adversarial "looks like a 1-byte code" bytes
    let tails: Vec<u8> = vec![0, 1, 2]; // fill, FF with a code in second place, all zero (NUL padding)
    let _ = thorough;
    let n = 256u64 * 256 * lens.len() as u64 * addrs.len() as u64 * tails.len() as u64;
    let accs = par_range(n, 4096, Acc::default, |acc, i| {
        let mut x = i;
        let tail = tails[(x % tails.len() as u64) as usize];
        x /= tails.len() as u64;
        let a = addrs[(x % 5) as usize];
        x /= 5;
        let l = lens[(x % 6) as usize];
        x /= 6;
        let b = (x % 256) as u8;
        let t = (x / 256) as u8;
        if l == 0 && (b != 0 || tail != 0) {
            return; // one empty-data frame per (type, address)
        }
        if l == 1 && tail != 0 {
            return;
        }
        let mut d = match tail {
            0 => fill(l, 7, seed),
            1 => vec![0xFF; l],
            _ => vec![0x00; l],
        };
        if l > 0 {
            d[0] = b;
        }
        if tail == 1 && l > 1 {
            d[1] = 0xA2; // a request code in second place
        }
        eval(acc, a, t, &d, i);
    });
    let mut all = Acc::default();
    for a in accs {
        all.merge(ID, a);
    }
    let part1 = all.evals;

    // all addresses for every recognised code + type-0 lengths
    let mut codes: Vec<(u8, Vec<u8>)> = vec![(1, vec![]), (2, vec![0xFF]), (2, vec![0x00]), (2, vec![0x55]), (6, vec![0x00])];
    for s in STATES.iter() {
        codes.push((4, vec![s.1]));
    }
    for o in OPS.iter() {
        codes.push((3, vec![o.1]));
        codes.push((5, vec![o.2]));
    }
    assert_eq!(codes.len(), 30);
    for l in [0usize, 1, 2, 16] {
        codes.push((0, fill(l, 11, seed)));
    }
    // near misses for all addresses: right code under the neighbouring type, and code+1
    codes.push((3, vec![0x95]));
    codes.push((5, vec![0xA1]));
    codes.push((4, vec![0x02]));
    codes.push((1, vec![0x00]));
    codes.push((6, vec![]));
    let n2 = codes.len() as u64 * 65536;
    let accs = par_range(n2, 4096, Acc::default, |acc, i| {
        let (t, ref d) = codes[(i / 65536) as usize];
        eval(acc, (i % 65536) as u16, t, d, (1u64 << 40) + i);
    });
    for a in accs {
        all.merge(ID, a);
    }
    all.samples.push(json!({"frame": "(0003, 02, FF)", "table": msg_str(&ref_classify(3, 2, &[0xFF]))}));
    all.samples.push(json!({"frame": "(ABCD, 04, 13)", "table": msg_str(&ref_classify(0xABCD, 4, &[0x13]))}));
    all.samples.push(json!({"frame": "(0010, 00, <empty>)", "table": msg_str(&ref_classify(0x10, 0, &[]))}));
    all.samples.push(json!({"frame": "(0010, 03, A2A2)", "table": msg_str(&ref_classify(0x10, 3, &[0xA2, 0xA2]))}));
    let nt = rep.absorb(all);
    rep.states = nt;
    rep.transitions = rep.evaluations;
    rep.set("table_sweep_frames", json!(part1));
    rep.set("all_address_codes", json!(codes.len()));
    for k in ["SendData", "DataChunksSent", "Hello", "QueryState", "Goodbye", "ReportState", "RequestOperation", "AckOperation", "PixelsComplete", "Unknown"] {
        rep.guard(&format!("kind-{}-expected-somewhere", k), rep.outcomes.get(k) > 0, format!("{} frames", rep.outcomes.get(k)));
    }
    rep
}

pub fn replay(_ctx: &Ctx, case: &Value) -> Result<Vec<Violation>, String> {
    if case["kind"].as_str() != Some("frame") {
        return Err("unknown case kind".into());
    }
    let addr = case["addr"].as_u64().ok_or("addr")? as u16;
    let typ = case["type"].as_u64().ok_or("type")? as u8;
    let data = unhex(case["data"].as_str().ok_or("data")?);
    let (_, vs) = check_frame(addr, typ, &data);
    Ok(vs.into_iter().map(|(c, k, d)| Violation::new(c, k, d, case.clone(), 0)).collect())
}
