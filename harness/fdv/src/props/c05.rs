//! C05 — every specific message survives the trip through its wire frame; encodings are injective (E1).

use flipdot_core::{Address, ChunkCount, Data, Frame, Message, Offset};
use serde_json::{json, Value};

use crate::refmodel::{kind_name, msg_from_json, msg_json, msg_str, OPS, STATES};
use crate::report::{Acc, Ctx, Report, Violation};
use crate::util::{catch, fill, fnv, par_range};

const ID: &str = "C05";

/// Returns the violations for one message and the wire bytes (without CRLF) it produced.
pub fn check_message(m: &Message<'static>) -> (Vec<(&'static str, String, String)>, Option<Vec<u8>>) {
    let r = catch(|| {
        let frame = Frame::from(m.clone());
        let plain = frame.to_bytes();
        let nl = frame.to_bytes_with_newline();
        let back1 = Frame::from_bytes(&plain).map(Message::from);
        let back2 = Frame::from_bytes(&nl).map(Message::from);
        (plain, back1, back2)
    });
    let lenclass = match m {
        Message::SendData(_, d) => match d.get().len() {
            0 => "-len0",
            1 => "-len1",
            _ => "-len2+",
        },
        _ => "",
    };
    let mut out = vec![];
    match r {
        Err(p) => {
            out.push(("no-panic", p.class(), format!("{} panicked: {}", msg_str(m), p.message)));
            (out, None)
        }
        Ok((plain, b1, b2)) => {
            for (name, b) in [("plain", b1), ("newline", b2)] {
                match b {
                    Ok(got) if &got == m => {}
                    Ok(got) => out.push((
                        "roundtrip",
                        format!("{}{}-came-back-as-{}", kind_name(m), lenclass, kind_name(&got)),
                        format!("{} -> wire ({}) -> {}", msg_str(m), name, msg_str(&got)),
                    )),
                    Err(e) => out.push(("roundtrip", format!("{}{}-undecodable", kind_name(m), lenclass), format!("{} -> wire ({}) -> error {:?}", msg_str(m), name, e))),
                }
            }
            (out, Some(plain))
        }
    }
}

/// The enumerated message domain, by index.
pub struct Domain {
    senddata_lens: Vec<usize>,
    offsets_all_len: Vec<u16>,
    seed: u64,
    // section sizes
    n_sd1: u64,
    n_sd2: u64,
    n_cnt: u64,
    n_addr4: u64,
    n_rep: u64,
    n_req: u64,
    n_ack: u64,
}

impl Domain {
    pub fn new(seed: u64) -> Self {
        let senddata_lens = vec![0usize, 1, 2, 16, 255];
        let offsets_all_len = vec![0u16, 16, 0xFFF0, 0xFFFF];
        Domain {
            n_sd1: 65536 * senddata_lens.len() as u64,
            n_sd2: offsets_all_len.len() as u64 * 256 * 2,
            n_cnt: 65536,
            n_addr4: 4 * 65536,
            n_rep: 13 * 65536,
            n_req: 6 * 65536,
            n_ack: 6 * 65536,
            senddata_lens,
            offsets_all_len,
            seed,
        }
    }
    pub fn len(&self) -> u64 {
        self.n_sd1 + self.n_sd2 + self.n_cnt + self.n_addr4 + self.n_rep + self.n_req + self.n_ack
    }
    pub fn get(&self, mut i: u64) -> Message<'static> {
        if i < self.n_sd1 {
            let l = self.senddata_lens[(i / 65536) as usize];
            let o = (i % 65536) as u16;
            return Message::SendData(Offset(o), Data::try_new(fill(l, 1, self.seed)).unwrap());
        }
        i -= self.n_sd1;
        if i < self.n_sd2 {
            let fillk = i % 2;
            let l = ((i / 2) % 256) as usize;
            let o = self.offsets_all_len[(i / 512) as usize];
            let d = if fillk == 0 { fill(l, 2, self.seed) } else { vec![0xFF; l] };
            return Message::SendData(Offset(o), Data::try_new(d).unwrap());
        }
        i -= self.n_sd2;
        if i < self.n_cnt {
            return Message::DataChunksSent(ChunkCount(i as u16));
        }
        i -= self.n_cnt;
        if i < self.n_addr4 {
            let a = Address((i % 65536) as u16);
            return match i / 65536 {
                0 => Message::Hello(a),
                1 => Message::QueryState(a),
                2 => Message::Goodbye(a),
                _ => Message::PixelsComplete(a),
            };
        }
        i -= self.n_addr4;
        if i < self.n_rep {
            return Message::ReportState(Address((i % 65536) as u16), STATES[(i / 65536) as usize].0);
        }
        i -= self.n_rep;
        if i < self.n_req {
            return Message::RequestOperation(Address((i % 65536) as u16), OPS[(i / 65536) as usize].0);
        }
        i -= self.n_req;
        Message::AckOperation(Address((i % 65536) as u16), OPS[(i / 65536) as usize].0)
    }
}

pub fn run(ctx: &Ctx) -> Report {
    let mut rep = Report::new(ctx);
    let dom = Domain::new(ctx.seed);
    rep.rule = "every constructible specific message of the enumerated domain (SendData: all 65536 offsets x lengths {0,1,2,16,255} and offsets {0,16,FFF0,FFFF} x every length 0..=255 x 2 fills; \
                DataChunksSent: all counts; Hello/QueryState/Goodbye/PixelsComplete: all addresses; ReportState: 13 states x all addresses; Request/Ack: 6 operations x all addresses) is converted \
                message -> frame -> wire -> frame -> message (both encodings) and compared; injectivity is checked over all wire encodings. Every message is non-trivial; distinct by wire fingerprint"
        .into();
    let n = dom.len();
    let accs = par_range(n, 4096, || (Acc::default(), Vec::<(u64, u64)>::new()), |st, i| {
        let (acc, wires) = st;
        let m = dom.get(i);
        acc.evals += 1;
        let (vs, wire) = check_message(&m);
        acc.outcomes.add(kind_name(&m));
        if let Some(w) = wire {
            let fp = fnv(&w);
            wires.push((fp, i));
            acc.nontrivial_fp.push(fp);
        }
        for (clause, class, detail) in vs {
            acc.violation(ID, Violation::new(clause, class, detail, json!({"kind": "message", "message": msg_json(&m)}), i));
        }
    });
    let mut all = Acc::default();
    let mut wires: Vec<(u64, u64)> = vec![];
    for (a, w) in accs {
        all.merge(ID, a);
        wires.extend(w);
    }
    // injectivity: equal wire encodings must come from equal messages
    wires.sort_unstable();
    let mut collisions_checked = 0u64;
    for w in wires.windows(2) {
        if w[0].0 == w[1].0 {
            collisions_checked += 1;
            let (m1, m2) = (dom.get(w[0].1), dom.get(w[1].1));
            if m1 != m2 {
                let Ok((b1, b2)) = catch(|| (Frame::from(m1.clone()).to_bytes(), Frame::from(m2.clone()).to_bytes())) else { continue };
                if b1 == b2 {
                    all.violation(
                        ID,
                        Violation::new(
                            "injective",
                            format!("{}-and-{}", kind_name(&m1), kind_name(&m2)),
                            format!("different messages {} and {} share the wire encoding {}", msg_str(&m1), msg_str(&m2), crate::util::show_bytes(&b1)),
                            json!({"kind": "pair", "m1": msg_json(&m1), "m2": msg_json(&m2)}),
                            w[0].1,
                        ),
                    );
                }
            }
        }
    }
    // call sequences on a fresh thread: messages that collide on (kind, offset/address, length, byte sum)
    let cf = crate::props::c01::colliding_frames(ctx.seed);
    let mut cm: Vec<Message<'static>> = cf.iter().filter(|f| f.1 == 0).map(|f| Message::SendData(Offset(f.0), Data::try_new(f.2.clone()).unwrap())).collect();
    cm.push(Message::ReportState(Address(0x0102), STATES[3].0));
    cm.push(Message::ReportState(Address(0x0201), STATES[3].0));
    cm.push(Message::DataChunksSent(ChunkCount(0x0102)));
    cm.push(Message::DataChunksSent(ChunkCount(0x0201)));
    cm.push(Message::Hello(Address(0x00FF)));
    cm.push(Message::QueryState(Address(0x00FF)));
    let k = cm.len();
    let mut seq_evals = 0u64;
    for i in 0..k {
        for j in 0..k {
            for l in 0..=k {
                let mut seqm = vec![cm[i].clone(), cm[j].clone()];
                if l < k {
                    seqm.push(cm[l].clone());
                }
                seq_evals += seqm.len() as u64;
                let seq2 = seqm.clone();
                let r = crate::util::in_fresh_thread(move || {
                    for (step, m) in seq2.iter().enumerate() {
                        let (vs, _) = check_message(m);
                        if let Some(v) = vs.into_iter().next() {
                            return Some((step, v));
                        }
                    }
                    None
                });
                if let Some((step, (clause, class, detail))) = r {
                    let (clause, class) = if step == 0 { (clause, class) } else { ("history-independent", format!("step-{}:{}", step.min(2), class)) };
                    all.violation(ID, Violation::new(clause, class, format!("step {} of a sequence on one thread: {}", step, detail), json!({"kind": "sequence", "messages": seqm.iter().map(msg_json).collect::<Vec<_>>()}), (1u64 << 40) + ((i * k + j) * (k + 1) + l) as u64));
                }
            }
        }
    }
    all.evals += seq_evals;
    for i in [3u64, dom.n_sd1 + 700, dom.n_sd1 + dom.n_sd2 + 6, n - 5] {
        let m = dom.get(i);
        let wire = catch(|| Frame::from(m.clone()).to_bytes_with_newline()).unwrap_or_default();
        all.samples.push(json!({"message": msg_str(&m), "wire": crate::util::show_bytes(&wire)}));
    }
    let nt = rep.absorb(all);
    rep.states = nt;
    rep.transitions = rep.evaluations;
    rep.set("messages_enumerated", json!(n));
    rep.set("equal_fingerprint_pairs_rechecked_on_real_bytes", json!(collisions_checked));
    rep.guard("domain-size", n > 2_000_000, format!("{} messages", n));
    rep.guard("distinct-wires", nt + 600_000 > n || !rep.violations.is_empty(), format!("{} distinct wire encodings for {} messages (the two SendData sub-domains overlap by construction)", nt, n));
    rep
}

pub fn replay(_ctx: &Ctx, case: &Value) -> Result<Vec<Violation>, String> {
    match case["kind"].as_str() {
        Some("message") => {
            let m = msg_from_json(&case["message"]);
            let (vs, _) = check_message(&m);
            Ok(vs.into_iter().map(|(c, k, d)| Violation::new(c, k, d, case.clone(), 0)).collect())
        }
        Some("sequence") => {
            let seqm: Vec<Message<'static>> = case["messages"].as_array().ok_or("messages")?.iter().map(msg_from_json).collect();
            let r = crate::util::in_fresh_thread(move || {
                for (step, m) in seqm.iter().enumerate() {
                    let (vs, _) = check_message(m);
                    if let Some(v) = vs.into_iter().next() {
                        return Some((step, v));
                    }
                }
                None
            });
            Ok(r.into_iter().map(|(step, (c, k, d))| if step == 0 { Violation::new(c, k, d, case.clone(), 0) } else { Violation::new("history-independent", format!("step-{}:{}", step.min(2), k), d, case.clone(), 0) }).collect())
        }
        Some("pair") => {
            let (m1, m2) = (msg_from_json(&case["m1"]), msg_from_json(&case["m2"]));
            let (b1, b2) = catch(|| (Frame::from(m1.clone()).to_bytes(), Frame::from(m2.clone()).to_bytes())).map_err(|p| format!("encoding panicked: {}", p.message))?;
            if m1 != m2 && b1 == b2 {
                Ok(vec![Violation::new("injective", format!("{}-and-{}", kind_name(&m1), kind_name(&m2)), "same wire", case.clone(), 0)])
            } else {
                Ok(vec![])
            }
        }
        _ => Err("unknown case kind".into()),
    }
}
