//! C14 — signs sharing a bus are isolated; replies come only from the addressed sign
//! (E2 BFS over the real VirtualSignBus; reference = the same real signs run in isolation, each fed only
//! the messages that concern it).

use serde_json::{json, Value};

use crate::bfs::{bfs, replay_path, System};
use crate::props::c12::absorb_bfs;
use crate::report::{Acc, Ctx, Report, Violation};
use crate::util::par_range;
use crate::signsys::*;

/// Message sequences that drive a fresh sign (address `a`) into each protocol state (14 = the 13 states plus
/// ready-to-reset with a complete page still buffered).
pub fn drive_sequences(a: u16, automatic: bool) -> Vec<(String, Vec<flipdot_core::Message<'static>>)> {
    use flipdot_core::{Address, ChunkCount, Data, Message, Offset, Operation};
    let ad = Address(a);
    let req = |o: Operation| Message::RequestOperation(ad, o);
    let block = Message::SendData(Offset(0), Data::try_new(custom_block(12, 8, 0xEE)).unwrap());
    let chunk = Message::SendData(Offset(0), Data::try_new(vec![0x11u8; 16]).unwrap());
    let cnt = |n: u16| Message::DataChunksSent(ChunkCount(n));
    let cfg = vec![req(Operation::ReceiveConfig), block.clone(), cnt(1)];
    let with = |base: &Vec<Message<'static>>, more: Vec<Message<'static>>| {
        let mut v = base.clone();
        v.extend(more);
        v
    };
    let pix_in = with(&cfg, vec![req(Operation::ReceivePixels)]);
    let pix_rx = with(&pix_in, vec![chunk.clone(), cnt(1)]);
    let loaded = with(&pix_rx, vec![Message::PixelsComplete(ad)]);
    let mut v = vec![
        ("Unconfigured".to_string(), vec![]),
        ("ConfigInProgress".to_string(), vec![req(Operation::ReceiveConfig)]),
        ("ConfigReceived".to_string(), cfg.clone()),
        ("ConfigFailed".to_string(), vec![req(Operation::ReceiveConfig), cnt(5)]),
        ("PixelsInProgress".to_string(), with(&pix_in, vec![chunk.clone()])),
        ("PixelsReceived".to_string(), pix_rx.clone()),
        ("PixelsFailed".to_string(), with(&pix_in, vec![chunk.clone(), cnt(9)])),
        (if automatic { "ShowingPages" } else { "PageLoaded" }.to_string(), loaded.clone()),
        ("ReadyToReset".to_string(), vec![req(Operation::StartReset)]),
        ("ReadyToReset+buffered-page".to_string(), with(&pix_in, vec![chunk.clone(), req(Operation::StartReset)])),
    ];
    if !automatic {
        let show = with(&loaded, vec![req(Operation::ShowLoadedPage)]);
        let shown = with(&show, vec![Message::QueryState(ad)]);
        v.push(("PageShowInProgress".to_string(), show));
        v.push(("PageShown".to_string(), shown.clone()));
        v.push(("PageLoadInProgress".to_string(), with(&shown, vec![req(Operation::LoadNextPage)])));
    }
    v
}

fn bus_obs_equal(x: &flipdot_testing::VirtualSignBus<'_>, y: &flipdot_testing::VirtualSignBus<'_>) -> bool {
    (0..2).all(|i| obs_equal(x.sign(i), y.sign(i)))
}

/// Continuations for `distinguish`: every addressed kind to both signs, unaddressed counts and chunks, and whole
/// transfers, each followed by state queries.
fn probe_suite(a0: u16, a1: u16) -> Vec<Vec<flipdot_core::Message<'static>>> {
    use flipdot_core::{Address, ChunkCount, Data, Message, Offset, Operation};
    let chunk = Message::SendData(Offset(0), Data::try_new(vec![0x22u8; 16]).unwrap());
    let block = Message::SendData(Offset(0), Data::try_new(custom_block(12, 8, 0xEE)).unwrap());
    let cnt = |n: u16| Message::DataChunksSent(ChunkCount(n));
    let q = vec![Message::QueryState(Address(a0)), Message::QueryState(Address(a1))];
    let mut v: Vec<Vec<Message<'static>>> = vec![];
    let mut push = |mut p: Vec<Message<'static>>| {
        p.extend(q.clone());
        v.push(p);
    };
    push(vec![]);
    for n in 0..4u16 {
        push(vec![cnt(n)]);
        push(vec![chunk.clone(), cnt(n)]);
        push(vec![block.clone(), cnt(n)]);
    }
    for a in [a0, a1] {
        let ad = Address(a);
        push(vec![Message::Hello(ad)]);
        push(vec![Message::PixelsComplete(ad)]);
        push(vec![Message::Goodbye(ad)]);
        for (o, _, _) in crate::refmodel::OPS.iter() {
            push(vec![Message::RequestOperation(ad, *o)]);
        }
        push(vec![Message::RequestOperation(ad, Operation::ReceiveConfig), block.clone(), cnt(1)]);
        push(vec![Message::RequestOperation(ad, Operation::ReceivePixels), chunk.clone(), cnt(1), Message::PixelsComplete(ad)]);
        push(vec![Message::RequestOperation(ad, Operation::ReceivePixels), chunk.clone(), chunk.clone(), cnt(2), Message::PixelsComplete(ad)]);
        push(vec![Message::RequestOperation(ad, Operation::StartReset), Message::RequestOperation(ad, Operation::FinishReset)]);
    }
    v
}

/// Runs every probe on clones of both buses; returns the first continuation after which replies or state/type/pages differ.
fn distinguish(x: &flipdot_testing::VirtualSignBus<'static>, y: &flipdot_testing::VirtualSignBus<'static>, probes: &[Vec<flipdot_core::Message<'static>>]) -> Option<String> {
    use flipdot_core::SignBus;
    for p in probes {
        let (mut bx, mut by) = (x.clone(), y.clone());
        for (i, m) in p.iter().enumerate() {
            let rx = crate::util::catch(|| bx.process_message(m.clone()).ok().flatten().map(|r| crate::refmodel::own(&r)));
            let ry = crate::util::catch(|| by.process_message(m.clone()).ok().flatten().map(|r| crate::refmodel::own(&r)));
            let same = match (&rx, &ry) {
                (Ok(a), Ok(b)) => a == b && bus_obs_equal(&bx, &by),
                (Err(_), Err(_)) => true,
                _ => false,
            };
            if !same {
                return Some(p[..=i].iter().map(crate::refmodel::msg_str).collect::<Vec<_>>().join(", "));
            }
            if rx.is_err() {
                break;
            }
        }
    }
    None
}

/// "A message for an address nobody has gets no reply and changes nothing": for every pair of protocol states of a
/// two-sign bus, every addressed message kind is delivered to EVERY one of the 65534 absent addresses.
pub fn absent_address_sweep(rep: &mut Report) {
    use flipdot_core::{Address, Message, Operation, PageFlipStyle, SignBus};
    use flipdot_testing::{VirtualSign, VirtualSignBus};
    let (a0, a1) = (3u16, 0x0105u16);
    let seq0 = drive_sequences(a0, false);
    let seq1 = drive_sequences(a1, true);
    let mut states: Vec<(String, VirtualSignBus<'static>)> = vec![];
    for (n0, s0) in &seq0 {
        for (n1, s1) in &seq1 {
            let mut bus = VirtualSignBus::new(vec![VirtualSign::new(Address(a0), PageFlipStyle::Manual), VirtualSign::new(Address(a1), PageFlipStyle::Automatic)]);
            // drive sign 1 first, then sign 0, keeping unaddressed traffic from disturbing the other: sign 1's data
            // messages only reach sign 0 while it is not receiving
            for m in s1 {
                let _ = bus.process_message(m.clone());
            }
            let keep1 = bus.sign(1).clone();
            for m in s0 {
                let _ = bus.process_message(m.clone());
            }
            let unaddressed = s0.iter().any(|m| matches!(m, Message::SendData(..) | Message::DataChunksSent(..)));
            if (receiving(keep1.state()) && unaddressed) || !obs_equal(bus.sign(1), &keep1) {
                continue; // sign 0's transfer interfered legitimately (both receiving): skip this pair
            }
            states.push((format!("{} / {}", n0, n1), bus));
        }
    }
    let kinds: Vec<Box<dyn Fn(Address) -> Message<'static> + Sync>> = vec![
        Box::new(Message::Hello),
        Box::new(Message::QueryState),
        Box::new(Message::PixelsComplete),
        Box::new(Message::Goodbye),
        Box::new(|a| Message::RequestOperation(a, Operation::ReceiveConfig)),
        Box::new(|a| Message::RequestOperation(a, Operation::ReceivePixels)),
        Box::new(|a| Message::RequestOperation(a, Operation::ShowLoadedPage)),
        Box::new(|a| Message::RequestOperation(a, Operation::LoadNextPage)),
        Box::new(|a| Message::RequestOperation(a, Operation::StartReset)),
        Box::new(|a| Message::RequestOperation(a, Operation::FinishReset)),
    ];
    // "Changes nothing" is judged on what the property names (state, type, pages of every sign) and on behaviour:
    // a difference confined to private fields counts only if some continuation of the probe suite tells the two
    // buses apart (replies or state/type/pages after any step).
    let probes = probe_suite(a0, a1);
    let n = states.len() as u64 * kinds.len() as u64;
    let accs = par_range(n, 1, Acc::default, |acc, i| {
        let (ref name, ref bus) = states[(i / kinds.len() as u64) as usize];
        let k = (i % kinds.len() as u64) as usize;
        let mut work = bus.clone();
        let mut private_fields_differ = false;
        let mut last_addr = 0u16;
        for addr in 0..=65535u16 {
            if addr == a0 || addr == a1 {
                continue;
            }
            acc.evals += 1;
            last_addr = addr;
            let m = kinds[k](Address(addr));
            let r = crate::util::catch(|| work.process_message(m.clone()).map(|o| o.is_some()).unwrap_or(true));
            let bad: Option<String> = match r {
                Err(_) => Some("panicked".into()),
                Ok(true) => Some("replied".into()),
                Ok(false) if private_fields_differ || &work != bus => {
                    if !bus_obs_equal(&work, bus) {
                        Some("changed-the-bus".into())
                    } else if !private_fields_differ {
                        private_fields_differ = true;
                        distinguish(&work, bus, &probes).map(|p| format!("changed-later-behaviour[{}]", p))
                    } else {
                        None
                    }
                }
                _ => None,
            };
            if let Some(what) = bad {
                let class = what.split('[').next().unwrap_or("").to_string();
                acc.violation("C14", Violation::new("absent-address-silent", format!("{}:{}", class, crate::refmodel::kind_name(&m)), format!("{} for the absent address {:04X} on a bus with signs {:04X},{:04X} in states [{}]: {}", crate::refmodel::msg_str(&m), addr, a0, a1, name, what), json!({"kind": "absent", "state_index": i / kinds.len() as u64, "message_kind": k, "addr": addr}), (1u64 << 50) | (i << 16) | addr as u64));
                work = bus.clone();
                private_fields_differ = false;
            }
        }
        if private_fields_differ {
            // private fields drifted without an observable difference: judge the accumulated drift once more
            if let Some(p) = distinguish(&work, bus, &probes) {
                let m = kinds[k](Address(last_addr));
                acc.violation("C14", Violation::new("absent-address-silent", format!("changed-later-behaviour-after-sweep:{}", crate::refmodel::kind_name(&m)), format!("{} delivered to every absent address on a bus with signs {:04X},{:04X} in states [{}]: afterwards the bus behaves differently under the continuation [{}]", crate::refmodel::kind_name(&m), a0, a1, name, p), json!({"kind": "absent", "state_index": i / kinds.len() as u64, "message_kind": k, "addr": last_addr, "whole_sweep": true}), (1u64 << 51) | (i << 16)));
            }
            acc.outcomes.add("absent-sweep-job-private-fields-drifted-behaviour-equal");
        }
        acc.outcomes.add("absent-sweep-job");
    });
    let mut all = Acc::default();
    for a in accs {
        all.merge("C14", a);
    }
    rep.transitions += all.evals;
    rep.set("absent_address_sweep", json!({"bus_states": states.len(), "message_kinds": kinds.len(), "addresses_each": 65534, "deliveries": all.evals}));
    rep.absorb(all);
}

pub fn run(ctx: &Ctx) -> Report {
    let mut rep = Report::new(ctx);
    let thorough = ctx.tier.thorough();
    rep.rule = "E2: breadth-first search over the real VirtualSignBus with n = 1..4 signs (mixed flip styles, both insertion orders), messages to every present and one absent address plus unaddressed \
                data/count messages, to a fixed point under per-sign size bounds. Reference: each sign also exists as an isolated real VirtualSign that receives only messages addressed to it and \
                unaddressed messages while it is receiving; after every transition the bus reply must equal the addressed isolated sign's reply and every sign's state/type/pages must equal its \
                isolated twin. Plus a directed sweep: for every pair of protocol states of a two-sign bus, each of the 10 addressed message kinds is delivered to EVERY absent 16-bit address and must get no reply and change nothing. distinct_nontrivial = distinct stored states other than the initial one"
        .into();
    rep.trusted_base = vec!["bfs.rs explorer".into(), "the isolation reference is the real VirtualSign itself, run alone".into(), "refsign.rs only for size bounds".into()];
    let mut runs = vec![];
    let mut tags_all = 0u64;
    let budget = ctx.clone();
    let deadline = move || budget.over_budget();
    let max_states = if thorough { 8_000_000 } else { 2_000_000 };
    let configs: Vec<&str> = if thorough { vec!["bus-1-a", "bus-2-q", "bus-2-a", "bus-2-ax", "bus-3-r", "bus-3-rx", "bus-4-r"] } else { vec!["bus-1-a", "bus-2-q", "bus-2-qx", "bus-3-r"] };
    for name in configs {
        let sys = BusSys { cfg: bus_config(name).unwrap(), oracle: BusOracle::Isolation };
        let res = bfs(&sys, max_states, &deadline);
        tags_all |= res.stats.tags;
        absorb_bfs(&mut rep, &sys.name(), &res.stats, &mut runs);
        for v in res.violations {
            rep.violation(v);
        }
        for s in res.sample_paths.into_iter().take(1) {
            rep.sample(s);
        }
    }
    let mut xs = vec![];
    if rep.violations.is_empty() {
        for name in ["bus-1-a", "bus-2-q"] {
            crate::xcheck::cross_check(&mut rep, &mut xs, &runs, BusSys { cfg: bus_config(name).unwrap(), oracle: BusOracle::Isolation });
        }
    }
    rep.set("stateright_cross_check", Value::Array(xs));
    absent_address_sweep(&mut rep);
    rep.set("bfs_runs", Value::Array(runs));
    let diverged = !rep.violations.is_empty();
    rep.guard("two-signs-mid-transfer-at-once", tags_all & T_TWO_RECEIVING != 0 || diverged, "a state with two signs receiving was expanded");
    rep.guard("absent-address-silent", tags_all & T_ABSENT_SILENT != 0 || diverged, "messages to the absent address were offered");
    rep.guard("second-sign-replies", tags_all & T_REPLY_SECOND_SIGN != 0 || diverged, "a sign that is not first on the bus replied with its own address");
    rep.guard("page-stored", tags_all & T_PAGE_STORED != 0 || diverged, "a page was stored on some sign");
    rep.assumptions.push("populations: (3 manual),(3 manual,5 auto),(5,3),(3,5,FFFF),(FFFF,5,3),(3,5,FFFF,0); absent address 0x0100; n>=3 use the reduced alphabet and bounds of DESIGN.md §4 C14".into());
    rep.set("note", json!("a panic of the bus is C12's business and ends the path here without a C14 verdict"));
    rep
}

pub fn replay(_ctx: &Ctx, case: &Value) -> Result<Vec<Violation>, String> {
    if case["kind"].as_str() == Some("absent") {
        // re-run the sweep job this case belongs to and report what it finds for that message kind
        let mut rep = Report::new(_ctx);
        absent_address_sweep(&mut rep);
        return Ok(rep.violations.into_values().collect());
    }
    if case["kind"].as_str() != Some("path") {
        return Err("unknown case kind".into());
    }
    let path: Vec<usize> = case["actions"].as_array().ok_or("actions")?.iter().map(|x| x.as_u64().unwrap() as usize).collect();
    let sysj = &case["system"];
    let sys = BusSys { cfg: bus_config(sysj["config"].as_str().ok_or("config")?).ok_or("unknown bus config")?, oracle: BusOracle::Isolation };
    Ok(replay_path(&sys, &path)?.into_iter().map(|(c, k, d)| Violation::new(&c, k, d, case.clone(), 0)).collect())
}
