//! C14 — signs sharing a bus are isolated; replies come only from the addressed sign
//! (E2 BFS over the real VirtualSignBus; reference = the same real signs run in isolation, each fed only
//! the messages that concern it).

use serde_json::{json, Value};

use crate::bfs::{bfs, replay_path, System};
use crate::props::c12::absorb_bfs;
use crate::report::{Ctx, Report, Violation};
use crate::signsys::*;

pub fn run(ctx: &Ctx) -> Report {
    let mut rep = Report::new(ctx);
    let thorough = ctx.tier.thorough();
    rep.rule = "E2: breadth-first search over the real VirtualSignBus with n = 1..4 signs (mixed flip styles, both insertion orders), messages to every present and one absent address plus unaddressed \
                data/count messages, to a fixed point under per-sign size bounds. Reference: each sign also exists as an isolated real VirtualSign that receives only messages addressed to it and \
                unaddressed messages while it is receiving; after every transition the bus reply must equal the addressed isolated sign's reply and every sign's state/type/pages must equal its \
                isolated twin. distinct_nontrivial = distinct stored states other than the initial one"
        .into();
    rep.trusted_base = vec!["bfs.rs explorer".into(), "the isolation reference is the real VirtualSign itself, run alone".into(), "refsign.rs only for size bounds".into()];
    let mut runs = vec![];
    let mut tags_all = 0u64;
    let budget = ctx.clone();
    let deadline = move || budget.over_budget();
    let max_states = if thorough { 8_000_000 } else { 2_000_000 };
    let configs: Vec<&str> = if thorough { vec!["bus-1-a", "bus-2-q", "bus-2-a", "bus-2-ax", "bus-3-r", "bus-3-rx", "bus-4-r"] } else { vec!["bus-1-a", "bus-2-q", "bus-2-qx", "bus-3-r"] };
    for name in configs {
        let sys = BusSys { cfg: bus_config(name).unwrap(), oracle: BusOracle::Isolation };
        let res = bfs(&sys, max_states, &deadline);
        tags_all |= res.stats.tags;
        absorb_bfs(&mut rep, &sys.name(), &res.stats, &mut runs);
        for v in res.violations {
            rep.violation(v);
        }
        for s in res.sample_paths.into_iter().take(1) {
            rep.sample(s);
        }
    }
    let mut xs = vec![];
    if rep.violations.is_empty() {
        for name in ["bus-1-a", "bus-2-q"] {
            let sysname = BusSys { cfg: bus_config(name).unwrap(), oracle: BusOracle::Isolation }.name();
            let sr = crate::xcheck::stateright_unique_states(BusSys { cfg: bus_config(name).unwrap(), oracle: BusOracle::Isolation });
            let mine = runs.iter().find(|r| r["run"] == json!(sysname)).and_then(|r| r["states"].as_u64());
            if let Some(mine) = mine {
                xs.push(json!({"run": sysname, "stateright_unique_states": sr, "own_explorer_states": mine, "equal": sr == mine}));
                if sr != mine {
                    rep.machinery_errors.push(format!("E5 cross-check: stateright found {} unique states for {}, the own explorer {}", sr, sysname, mine));
                }
            }
        }
    }
    rep.set("stateright_cross_check", Value::Array(xs));
    rep.set("bfs_runs", Value::Array(runs));
    let diverged = !rep.violations.is_empty();
    rep.guard("two-signs-mid-transfer-at-once", tags_all & T_TWO_RECEIVING != 0 || diverged, "a state with two signs receiving was expanded");
    rep.guard("absent-address-silent", tags_all & T_ABSENT_SILENT != 0 || diverged, "messages to the absent address were offered");
    rep.guard("second-sign-replies", tags_all & T_REPLY_SECOND_SIGN != 0 || diverged, "a sign that is not first on the bus replied with its own address");
    rep.guard("page-stored", tags_all & T_PAGE_STORED != 0 || diverged, "a page was stored on some sign");
    rep.assumptions.push("populations: (3 manual),(3 manual,5 auto),(5,3),(3,5,FFFF),(FFFF,5,3),(3,5,FFFF,0); absent address 0x0100; n>=3 use the reduced alphabet and bounds of DESIGN.md §4 C14".into());
    rep.set("note", json!("a panic of the bus is C12's business and ends the path here without a C14 verdict"));
    rep
}

pub fn replay(_ctx: &Ctx, case: &Value) -> Result<Vec<Violation>, String> {
    if case["kind"].as_str() != Some("path") {
        return Err("unknown case kind".into());
    }
    let path: Vec<usize> = case["actions"].as_array().ok_or("actions")?.iter().map(|x| x.as_u64().unwrap() as usize).collect();
    let sysj = &case["system"];
    let sys = BusSys { cfg: bus_config(sysj["config"].as_str().ok_or("config")?).ok_or("unknown bus config")?, oracle: BusOracle::Isolation };
    Ok(replay_path(&sys, &path)?.into_iter().map(|(c, k, d)| Violation::new(&c, k, d, case.clone(), 0)).collect())
}
