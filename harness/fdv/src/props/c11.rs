//! C11 — no unconfirmed success, fail-stop, bounded retries, own address only: invariants I1-I5 evaluated on
//! every leaf of the same complete reply trees as C10 (see c10.rs).
use serde_json::Value;

use crate::props::c10::{replay_mode, run_mode, Mode};
use crate::report::{Ctx, Report, Violation};

pub fn run(ctx: &Ctx) -> Report {
    run_mode(ctx, Mode::C11)
}

pub fn replay(_ctx: &Ctx, case: &Value) -> Result<Vec<Violation>, String> {
    replay_mode(Mode::C11, case)
}
