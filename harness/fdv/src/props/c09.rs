//! C09 — controller data transfers are complete, ordered, correctly offset and counted
//! (E3: every (sign type, address, page list, retry schedule) of the listed product, judged by a trace predicate).

use std::cell::RefCell;
use std::rc::Rc;

use flipdot::Sign;
use flipdot_core::{Address, Operation, Page, SignBus};
use serde_json::{json, Value};

use crate::ctlsys::{transfer_predicate, RespBus};
use crate::refmodel::SIGN_TYPES;
use crate::report::{Acc, Ctx, Report, Violation};
use crate::util::{catch, fill, par_range};

const ID: &str = "C09";
type V = (&'static str, String, String);

/// A page of exactly 16*k bytes (k >= 1) with position-identifying content.
fn page_of_chunks(k: usize, id: u8, seed: u64) -> Page<'static> {
    let w = (16 * k - 4) as u32;
    let mut bytes = fill(16 * k, id as u64 + 1, seed);
    bytes[0] = id;
    Page::from_bytes(w, 8, bytes).expect("16k bytes is the padded size of (16k-4) x 8")
}

/// Page lists by index: sizes in chunks.
pub fn list_sizes(thorough: bool) -> Vec<Vec<usize>> {
    let mut v: Vec<Vec<usize>> = vec![vec![]];
    let singles: Vec<usize> = if thorough { (1..=64).chain([255, 256, 257, 1023, 1024, 4095, 4096]).collect() } else { (1..=24).chain([64, 255, 256, 257, 4095, 4096]).collect() };
    for k in singles {
        v.push(vec![k]);
    }
    v.extend([vec![1, 1], vec![3, 3], vec![21, 21], vec![1, 2, 3], vec![3, 2, 1], vec![6, 1, 6, 1], vec![2, 2, 2, 2], vec![16, 1], vec![1, 16], vec![256, 1], vec![1, 256], vec![4096, 1], vec![1, 4096], vec![4096, 4096]]);
    // total chunk count exactly 65535, and 65534
    let mut big = vec![4096usize; 15];
    big.push(4095);
    v.push(big.clone());
    if thorough {
        let mut b2 = vec![4096usize; 15];
        b2.push(4094);
        v.push(b2);
    }
    v
}

pub const SCHEDULES: [&[bool]; 4] = [&[false], &[true, false], &[true, true, false], &[true, true, true]];

/// what = 0: configure (list ignored), 1: send_pages(list)
pub fn check_conv(type_idx: usize, addr: u16, what: usize, sizes: &[usize], sched: usize, seed: u64, nack: Option<(usize, u8)>, stray: Option<usize>) -> (String, Vec<V>) {
    let typ = SIGN_TYPES[type_idx].0;
    let own = Address(addr);
    let schedule = SCHEDULES[sched].to_vec();
    let bus = Rc::new(RefCell::new(RespBus { own, schedule: schedule.clone(), transfers_seen: 0, in_transfer: None, count_seen: false, sent: vec![], replies: vec![], keep_data: true, nack, nack_fired: None, requests_seen: 0, stray_reply_to_chunk: stray, chunks_seen: 0 }));
    let dynbus: Rc<RefCell<dyn SignBus>> = bus.clone();
    let pages: Vec<Page<'static>> = sizes.iter().enumerate().map(|(i, &k)| page_of_chunks(k, (i as u8).wrapping_mul(7).wrapping_add(1), seed)).collect();
    let r = catch(|| {
        let sign = Sign::new(dynbus, own, typ);
        if what == 0 {
            sign.configure().map(|_| ())
        } else {
            sign.send_pages(pages.iter()).map(|_| ())
        }
    });
    let attempts = schedule.iter().position(|f| !f).map(|p| p + 1).unwrap_or(3);
    let all_fail = schedule.iter().all(|f| *f);
    let mut out: Vec<V> = vec![];
    let outcome;
    match r {
        Err(p) => {
            outcome = "panic".to_string();
            out.push(("no-panic", p.class(), format!("controller panicked: {} at {}", p.message, p.location)));
        }
        Ok(res) => {
            outcome = if res.is_ok() { "ok".into() } else { "err".to_string() };
            let b0 = bus.borrow();
            let stray_hit = stray.map(|j| b0.chunks_seen > j).unwrap_or(false);
            let stopped_at_stray = stray_hit && matches!(b0.sent.last(), Some(flipdot_core::Message::SendData(..))) && b0.chunks_seen == stray.unwrap() + 1;
            drop(b0);
            if stray_hit {
                // a reply to a data chunk is not allowed: stopping there is fine (C11's business to demand it); if the
                // controller goes on, the transfer it completes must still be complete, ordered and correctly counted
                if stopped_at_stray {
                    return ("stopped-at-stray-reply".into(), out);
                }
            } else if nack.map(|(n, _)| n <= attempts).unwrap_or(false) {
                // success is only possible if some later request was acknowledged (asking again is the controller's
                // choice; C10/C11 judge it): the trace predicate below then judges that transfer
                let b0 = bus.borrow();
                let acked = b0.sent.iter().zip(b0.replies.iter()).any(|(m, r)| matches!(m, flipdot_core::Message::RequestOperation(..)) && matches!(r, Some(flipdot_core::Message::AckOperation(..))));
                if res.is_ok() && !acked {
                    out.push(("request-acknowledged-first", "success-without-acknowledgement".into(), format!("receive request #{} was not acknowledged, no other request was, but the call returned Ok", nack.unwrap().0)));
                }
            } else if res.is_ok() && all_fail {
                // (giving up earlier than the schedule would allow is a matter of retry policy: C10/C11)
                out.push(("result-follows-schedule", format!("{}", if what == 0 { "configure" } else { "send_pages" }), format!("schedule {:?} but the call returned {:?}", schedule, res.map_err(|e| e.to_string()))));
            }
            let b = bus.borrow();
            let (op, items_owned): (Operation, Vec<Vec<u8>>) = if what == 0 { (Operation::ReceiveConfig, vec![typ.to_bytes().to_vec()]) } else { (Operation::ReceivePixels, pages.iter().map(|p| p.as_bytes().to_vec()).collect()) };
            let items: Vec<&[u8]> = items_owned.iter().map(|v| &v[..]).collect();
            if what == 0 && (items[0].len() != 16 || items[0] != crate::refmodel::SIGN_TYPES[type_idx].0.to_bytes()) {
                out.push(("configuration-is-the-16-byte-block", "block".into(), "sign type block is not 16 bytes".into()));
            }
            out.extend(transfer_predicate(&b.sent, &b.replies, own, op, &items, match nack { Some((n, _)) if n <= attempts => None, _ => Some(attempts) }));
        }
    }
    (outcome, out)
}

fn case_json(type_idx: usize, addr: u16, what: usize, sizes: &[usize], sched: usize, seed: u64, nack: Option<(usize, u8)>, stray: Option<usize>) -> Value {
    json!({"kind": "conversation", "type_index": type_idx, "sign_type": format!("{:?}", SIGN_TYPES[type_idx].0), "addr": addr, "operation": if what == 0 { "configure" } else { "send_pages" }, "what": what,
           "page_sizes_in_chunks": sizes, "schedule_index": sched, "failure_schedule": SCHEDULES[sched], "seed": seed,
           "stray_reply_to_chunk": stray, "unacknowledged_request": nack.map(|(n, v)| { let how = ["silence", "ack of another operation", "ack from another address", "a state report", "silence, then the matching in-progress state to a query", "silence, then the other in-progress state to a query"][v as usize]; json!({"request_number": n, "variant": v, "answered_with": how}) })})
}

/// The same `Sign` object is used twice: a first send_pages that is aborted at its j-th chunk (the bus answers it with
/// a stray report, or fails), then a normal transfer. The second conversation is judged by the trace predicate.
pub fn check_after_abort(type_idx: usize, addr: u16, first: &[usize], abort_at: usize, bus_error: bool, what2: usize, second: &[usize], seed: u64) -> (String, Vec<V>) {
    let typ = SIGN_TYPES[type_idx].0;
    let own = Address(addr);
    let bus = Rc::new(RefCell::new(RespBus { own, schedule: vec![false, false, false, false], transfers_seen: 0, in_transfer: None, count_seen: false, sent: vec![], replies: vec![], keep_data: true, nack: None, nack_fired: None, requests_seen: 0, stray_reply_to_chunk: Some(abort_at), chunks_seen: 0 }));
    let _ = bus_error;
    let dynbus: Rc<RefCell<dyn SignBus>> = bus.clone();
    let pages1: Vec<Page<'static>> = first.iter().enumerate().map(|(i, &k)| page_of_chunks(k, 100 + i as u8, seed)).collect();
    let pages2: Vec<Page<'static>> = second.iter().enumerate().map(|(i, &k)| page_of_chunks(k, (i as u8).wrapping_mul(7).wrapping_add(1), seed)).collect();
    let bus2 = bus.clone();
    let r = catch(move || {
        let sign = Sign::new(dynbus, own, typ);
        let first_result = sign.send_pages(pages1.iter()).is_ok();
        let cut = {
            let mut b = bus2.borrow_mut();
            b.stray_reply_to_chunk = None;
            b.in_transfer = None;
            b.count_seen = false;
            b.sent.len()
        };
        let second_result = if what2 == 0 { sign.configure().map(|_| ()) } else { sign.send_pages(pages2.iter()).map(|_| ()) };
        (first_result, cut, second_result.map_err(|e| e.to_string()), pages2)
    });
    let mut out: Vec<V> = vec![];
    match r {
        Err(p) => {
            out.push(("no-panic", p.class(), format!("controller panicked: {}", p.message)));
            ("panic".into(), out)
        }
        Ok((first_ok, cut, second, pages2)) => {
            if first_ok {
                return ("first-not-aborted".into(), out);
            }
            // whether the second call succeeds is a matter of policy (a controller may refuse pages of a size other
            // than its sign's before sending anything): the statement is about the transfers that are made, and the
            // trace predicate judges whatever the second call put on the bus
            let _ = &second;
            let b = bus.borrow();
            let (op, items_owned): (Operation, Vec<Vec<u8>>) = if what2 == 0 { (Operation::ReceiveConfig, vec![typ.to_bytes().to_vec()]) } else { (Operation::ReceivePixels, pages2.iter().map(|p| p.as_bytes().to_vec()).collect()) };
            let items: Vec<&[u8]> = items_owned.iter().map(|v| &v[..]).collect();
            for (clause, class, detail) in transfer_predicate(&b.sent[cut..], &b.replies[cut..], own, op, &items, Some(1)) {
                out.push((clause, format!("after-aborted-transfer:{}", class), format!("second transfer on a Sign whose first transfer was aborted at chunk {}: {}", abort_at, detail)));
            }
            ("judged".into(), out)
        }
    }
}

pub fn run(ctx: &Ctx) -> Report {
    let mut rep = Report::new(ctx);
    let thorough = ctx.tier.thorough();
    let seed = ctx.seed;
    rep.rule = "every combination of sign type (11) x address {0,3,0xABCD,0xFFFF} x retry schedule {S, FS, FFS, FFF} x operation: configure, and send_pages over the page-list table (0..16 pages; single pages of every size 16*k bytes for k = 1..24/64 and 255,256,257,4095,4096 (the 16-bit offset limit); \
                mixed sizes; a list with exactly 65535 chunks) with position-identifying contents; the recorded conversation of the real Sign is judged by a trace predicate (request before data; per item offsets 0,16,32.., chunks <= 16 bytes, concatenation == item; count == chunks since the request; query after count; retries repeat the transfer). \
                Non-trivial = conversations with at least one data chunk; distinct by construction (product index)"
        .into();
    rep.trusted_base = vec!["ctlsys.rs transfer_predicate and RespBus".into()];
    let lists = list_sizes(thorough);
    let addrs = [0u16, 3, 0xABCD, 0xFFFF];
    // jobs: (type, addr idx, what, list idx, sched)
    let mut jobs: Vec<(usize, usize, usize, usize, usize, Option<(usize, u8)>, Option<usize>)> = vec![];
    for t in 0..11 {
        for a in 0..4 {
            for s in 0..4 {
                jobs.push((t, a, 0, 0, s, None, None));
                jobs.push((t, a, 0, 0, s, None, Some(0)));
                for n in 1..=3usize {
                    for v in 0..6u8 {
                        if n <= SCHEDULES[s].iter().position(|f| !f).map(|p| p + 1).unwrap_or(3) {
                            jobs.push((t, a, 0, 0, s, Some((n, v)), None));
                        }
                    }
                }
            }
        }
    }
    for (li, l) in lists.iter().enumerate() {
        let heavy = l.iter().sum::<usize>() > 5000;
        for t in 0..11 {
            if heavy && !(t == 2 || (thorough && t == 6)) {
                continue;
            }
            for a in 0..4 {
                if heavy && a != 1 && !(thorough && a == 3) {
                    continue;
                }
                for s in 0..4 {
                    if heavy && !thorough && s == 2 {
                        continue;
                    }
                    jobs.push((t, a, 1, li, s, None, None));
                    if !heavy {
                        let total: usize = l.iter().sum();
                        for j in 0..total.min(if li < 12 { 26 } else { 4 }) {
                            jobs.push((t, a, 1, li, s, None, Some(j)));
                        }
                    }
                    if !heavy && (li < 8 || li % 5 == 0) {
                        for n in 1..=3usize {
                            for v in 0..6u8 {
                                if n <= SCHEDULES[s].iter().position(|f| !f).map(|p| p + 1).unwrap_or(3) {
                                    jobs.push((t, a, 1, li, s, Some((n, v)), None));
                                }
                            }
                        }
                    }
                }
            }
        }
    }
    // heavy jobs first for load balance
    jobs.sort_by_key(|j| std::cmp::Reverse(if j.2 == 1 { lists[j.3].iter().sum::<usize>() } else { 0 }));
    let accs = par_range(jobs.len() as u64, 1, Acc::default, |acc, i| {
        let (t, a, what, li, s, nack, stray) = jobs[i as usize];
        acc.evals += 1;
        let (outcome, vs) = check_conv(t, addrs[a], what, &lists[li], s, seed, nack, stray);
        acc.outcomes.add(&format!("{}:{}{}", if what == 0 { "configure" } else { "send_pages" }, outcome, if nack.is_some() { ":unacknowledged-request" } else { "" }));
        if what == 0 || !lists[li].is_empty() {
            acc.nontrivial_fp.push(i);
        }
        for (clause, class, detail) in vs {
            let size: u64 = if what == 0 { 1 } else { lists[li].iter().sum::<usize>() as u64 };
            acc.violation(ID, Violation::new(clause, class, detail, case_json(t, addrs[a], what, &lists[li], s, seed, nack, stray), (size << 24) | i));
        }
    });
    let mut all = Acc::default();
    for a in accs {
        all.merge(ID, a);
    }
    // the same Sign after an aborted transfer
    let firsts: Vec<Vec<usize>> = vec![vec![6], vec![3, 3], vec![21]];
    let seconds: Vec<(usize, Vec<usize>)> = vec![(1, vec![6]), (1, vec![3, 2, 1]), (1, vec![]), (0, vec![])];
    let mut ajobs: Vec<(usize, usize, usize, usize)> = vec![];
    for t in [2usize, 6] {
        for (fi, f) in firsts.iter().enumerate() {
            for j in 0..f.iter().sum::<usize>() {
                for si in 0..seconds.len() {
                    ajobs.push((t, fi, j, si));
                }
            }
        }
    }
    let accs = par_range(ajobs.len() as u64, 4, Acc::default, |acc, i| {
        let (t, fi, j, si) = ajobs[i as usize];
        acc.evals += 1;
        let (outcome, vs) = check_after_abort(t, 3, &firsts[fi], j, false, seconds[si].0, &seconds[si].1, seed);
        acc.outcomes.add(&format!("after-abort:{}", outcome));
        acc.nontrivial_fp.push((1u64 << 40) | i);
        for (clause, class, detail) in vs {
            acc.violation(ID, Violation::new(clause, class, detail, json!({"kind": "after-abort", "type_index": t, "first": firsts[fi], "abort_at": j, "what2": seconds[si].0, "second": seconds[si].1, "seed": seed}), (1u64 << 50) | i));
        }
    });
    for a in accs {
        all.merge(ID, a);
    }
    all.samples.push(case_json(2, 3, 1, &[6, 1], 1, seed, None, None));
    all.samples.push(case_json(2, 3, 1, &[3, 3], 2, seed, Some((2, 1)), None));
    all.samples.push(case_json(6, 0xABCD, 0, &[], 3, seed, None, None));
    all.samples.push(case_json(2, 3, 1, &lists[lists.len() - 1], 0, seed, None, None));
    let nt = rep.absorb(all);
    rep.states = nt;
    rep.transitions = rep.evaluations;
    rep.set("conversations", json!(jobs.len()));
    rep.set("page_lists", json!(lists.len()));
    rep.assumptions.push("total chunks per transfer <= 65535: a 16-bit count cannot announce more, beyond it the property is unsatisfiable (and the controller's u16 counter would overflow); pages are at most 65536 bytes (offset 65520 is the last 16-bit chunk offset)".into());
    let o = rep.outcomes.clone();
    rep.guard("ok-and-exhausted-retries", o.get("send_pages:ok") > 0 && o.get("send_pages:err") > 0 && o.get("configure:ok") > 0 && o.get("configure:err") > 0 || !rep.violations.is_empty(), format!("{:?}", o.0));
    rep
}

pub fn replay(_ctx: &Ctx, case: &Value) -> Result<Vec<Violation>, String> {
    if case["kind"].as_str() == Some("after-abort") {
        let f: Vec<usize> = case["first"].as_array().ok_or("first")?.iter().map(|x| x.as_u64().unwrap() as usize).collect();
        let s2: Vec<usize> = case["second"].as_array().ok_or("second")?.iter().map(|x| x.as_u64().unwrap() as usize).collect();
        let (_, vs) = check_after_abort(case["type_index"].as_u64().ok_or("type")? as usize, 3, &f, case["abort_at"].as_u64().ok_or("abort_at")? as usize, false, case["what2"].as_u64().ok_or("what2")? as usize, &s2, case["seed"].as_u64().unwrap_or(0));
        return Ok(vs.into_iter().map(|(c, k, d)| Violation::new(c, k, d, case.clone(), 0)).collect());
    }
    if case["kind"].as_str() != Some("conversation") {
        return Err("unknown case kind".into());
    }
    let sizes: Vec<usize> = case["page_sizes_in_chunks"].as_array().ok_or("sizes")?.iter().map(|x| x.as_u64().unwrap() as usize).collect();
    let (_, vs) = check_conv(case["type_index"].as_u64().ok_or("type")? as usize, case["addr"].as_u64().ok_or("addr")? as u16, case["what"].as_u64().ok_or("what")? as usize, &sizes, case["schedule_index"].as_u64().ok_or("sched")? as usize, case["seed"].as_u64().unwrap_or(0), case["unacknowledged_request"].as_object().map(|o| (o["request_number"].as_u64().unwrap() as usize, o["variant"].as_u64().unwrap() as u8)), case["stray_reply_to_chunk"].as_u64().map(|x| x as usize));
    Ok(vs.into_iter().map(|(c, k, d)| Violation::new(c, k, d, case.clone(), 0)).collect())
}
