//! C03 — the decoder is total, strict and agrees with an independent Intel-HEX parser.
//! S1: all strings over the structural alphabet up to length L; S2: every string within edit distance k
//! of valid / near-valid bases; S3: every position x every byte value on long bases.

use flipdot_core::{Frame, FrameError};
use serde_json::{json, Value};

use crate::refmodel::{ref_encode, ref_parse, RefParse};
use crate::report::{Acc, Ctx, Report, Violation};
use crate::util::{catch, fill, fnv, hex, par_range, show_bytes, unhex};

const ID: &str = "C03";

pub const SIGMA: [u8; 28] = [
    b':', b'0', b'1', b'2', b'3', b'4', b'5', b'6', b'7', b'8', b'9', b'A', b'B', b'C', b'D', b'E', b'F', b'a', b'b', b'c', b'd', b'e', b'f', b'g', b'\r', b'\n', 0x00,
    0xFF,
];

/// Compare the implementation with the reference parser on one string.
pub fn check_string(s: &[u8], fmt_errors: bool) -> (&'static str, Option<(&'static str, String, String)>) {
    let want = ref_parse(s);
    let r = catch(|| {
        let r = Frame::from_bytes(s);
        if fmt_errors {
            if let Err(e) = &r {
                let _ = format!("{} / {:?}", e, e);
            }
        }
        r.map(|f| {
            let re = f.to_bytes();
            (f.address().0, f.message_type().0, f.data().to_vec(), re)
        })
    });
    let class = want.class();
    let v = match (r, &want) {
        (Err(p), _) => Some(("total", p.class(), format!("decoding {} panicked: {} at {}", show_bytes(s), p.message, p.location))),
        (Ok(Ok((a, t, d, re))), RefParse::Accept { addr, typ, data }) => {
            if a != *addr || t != *typ || &d != data {
                Some(("agree-accept", "fields".into(), format!("{} decoded to ({:04X},{:02X},{}) but reference says ({:04X},{:02X},{})", show_bytes(s), a, t, hex(&d), addr, typ, hex(data))))
            } else {
                let mut canon: Vec<u8> = s.to_vec();
                if canon.ends_with(b"\r\n") {
                    canon.truncate(canon.len() - 2);
                }
                canon.make_ascii_uppercase();
                if re != canon {
                    Some(("reencode", "differs".into(), format!("re-encoding {} gives {}", show_bytes(s), show_bytes(&re))))
                } else {
                    None
                }
            }
        }
        (Ok(Ok((a, t, d, _))), other) => Some((
            "strict",
            format!("accepted-{}", other.class()),
            format!("{} was accepted as ({:04X},{:02X},{}) but the reference parser says {:?}", show_bytes(s), a, t, hex(&d), other),
        )),
        (Ok(Err(e)), RefParse::Accept { .. }) => Some(("accepts-valid", "rejected".into(), format!("valid {} was rejected: {:?}", show_bytes(s), e))),
        (Ok(Err(e)), want) => match (&e, want) {
            (FrameError::InvalidFrame { .. }, RefParse::Malformed) => None,
            (FrameError::FrameDataMismatch { expected, actual, .. }, RefParse::LengthMismatch { declared, actual: ra }) => {
                if expected == declared && actual == ra {
                    None
                } else {
                    Some(("error-fields", "length".into(), format!("{}: reported expected={} actual={}, reference declared={} actual={}", show_bytes(s), expected, actual, declared, ra)))
                }
            }
            (FrameError::BadChecksum { expected, actual, .. }, RefParse::BadChecksum { declared, computed }) => {
                if expected == declared && actual == computed {
                    None
                } else {
                    Some(("error-fields", "checksum".into(), format!("{}: reported declared={:02X} computed={:02X}, reference declared={:02X} computed={:02X}", show_bytes(s), expected, actual, declared, computed)))
                }
            }
            (e, want) => {
                let got = match e {
                    FrameError::InvalidFrame { .. } => "malformed",
                    FrameError::FrameDataMismatch { .. } => "length-mismatch",
                    FrameError::BadChecksum { .. } => "bad-checksum",
                    _ => "other-error",
                };
                Some(("classification", format!("{}-as-{}", want.class(), got), format!("{}: implementation says {:?}, reference says {:?}", show_bytes(s), e, want)))
            }
        },
    };
    (class, v)
}

fn eval(acc: &mut Acc, s: &[u8], order: u64, fmt_errors: bool, track_distinct: bool) {
    acc.evals += 1;
    let (class, v) = check_string(s, fmt_errors);
    acc.outcomes.add(class);
    if class != "malformed" && track_distinct {
        acc.nontrivial_fp.push(fnv(s));
    }
    if let Some((clause, cl, detail)) = v {
        acc.violation(ID, Violation::new(clause, cl, detail, json!({"kind": "string", "bytes": hex(s), "shown": show_bytes(s)}), order));
    }
}

/// Every string within edit distance k of `s` over SIGMA (with repetitions), including `s` itself at k=0.
fn neighbours(s: &mut Vec<u8>, k: u32, f: &mut dyn FnMut(&[u8])) {
    f(s);
    if k == 0 {
        return;
    }
    let n = s.len();
    // substitutions
    for i in 0..n {
        let old = s[i];
        for &c in SIGMA.iter() {
            if c == old {
                continue;
            }
            s[i] = c;
            neighbours(s, k - 1, f);
        }
        s[i] = old;
    }
    // insertions
    for i in 0..=n {
        s.insert(i, 0);
        for &c in SIGMA.iter() {
            s[i] = c;
            neighbours(s, k - 1, f);
        }
        s.remove(i);
    }
    // deletions
    for i in 0..n {
        let old = s.remove(i);
        neighbours(s, k - 1, f);
        s.insert(i, old);
    }
}

/// Number of first-level edits of a string of length n (for job splitting).
fn first_edits(s: &[u8]) -> Vec<Vec<u8>> {
    let mut out = vec![];
    let mut v = s.to_vec();
    let mut depth0 = true;
    neighbours(&mut v, 1, &mut |x| {
        if depth0 {
            depth0 = false; // skip s itself
        } else {
            out.push(x.to_vec());
        }
    });
    out
}

/// Representative strings of every class for the call-sequence check.
pub fn representatives(seed: u64) -> Vec<Vec<u8>> {
    vec![
        ref_encode(0x0003, 2, &[0xFF], true),
        ref_encode(0xABCD, 0, &[1, 2, 3, 4, 5], false).to_ascii_lowercase(),
        ref_encode(0x0000, 0, &[], false),
        ref_encode(0x1234, 0, &fill(255, 3, seed), true),
        b":00007F02007F".to_vec(),     // declares 0, carries 1
        b":05007F02F9".to_vec(),       // declares 5, carries 0
        b":02000302FFFA\r\n".to_vec(), // declares 2, carries 1
        b":01000302FF00".to_vec(),     // bad checksum
        b":0100030gFF00".to_vec(),     // malformed
        b"".to_vec(),
        b"\r\n".to_vec(),
        ref_encode(0x0010, 0, &[8, 4, 2, 1], true),
        ref_encode(0x0010, 0, &[1, 2, 4, 8], true),
        // the body of the first representative with other terminators / case (a memo keyed on a trimmed line would hit)
        ref_encode(0x0003, 2, &[0xFF], false),
        { let mut x = ref_encode(0x0003, 2, &[0xFF], false); x.push(b'\n'); x },
        { let mut x = ref_encode(0x0003, 2, &[0xFF], false); x.push(b'\r'); x },
        { let mut x = ref_encode(0x0003, 2, &[0xFF], true); x.extend_from_slice(b"\r\n"); x },
        { let mut x = ref_encode(0x0003, 2, &[0xFF], false); x.extend_from_slice(b" \r\n"); x },
        { let mut x = ref_encode(0x0003, 2, &[0xFF], false); x.push(b'\t'); x },
        ref_encode(0x0003, 2, &[0xFF], true).to_ascii_lowercase(),
    ]
}

/// Decodes a SEQUENCE of strings on one fresh thread; every decode must agree with the reference as if it were alone.
pub fn check_string_sequence(strings: Vec<Vec<u8>>) -> Vec<(&'static str, String, String)> {
    crate::util::in_fresh_thread(move || {
        for (k, s) in strings.iter().enumerate() {
            let (_, v) = check_string(s, true);
            if let Some((clause, class, detail)) = v {
                if k == 0 {
                    return vec![(clause, class, detail)];
                }
                return vec![("history-independent", format!("step-{}:{}", k.min(2), clause), format!("decode #{} of a sequence on one thread (after {}): {}", k, strings[..k].iter().map(|x| show_bytes(&x[..x.len().min(24)])).collect::<Vec<_>>().join(" , "), detail))];
            }
        }
        vec![]
    })
}

fn mixed_case(s: &[u8], mode: u8) -> Vec<u8> {
    s.iter()
        .enumerate()
        .map(|(i, &c)| match mode {
            1 => c.to_ascii_lowercase(),
            2 if i % 2 == 0 => c.to_ascii_lowercase(),
            _ => c,
        })
        .collect()
}

fn bases(seed: u64) -> Vec<(String, Vec<u8>)> {
    let mut out: Vec<(String, Vec<u8>)> = vec![];
    let frames: Vec<(u16, u8, Vec<u8>)> = vec![
        (0x0000, 0x00, vec![]),
        (0x0002, 0x01, vec![]),
        (0xABCD, 0xEF, vec![]),
        (0xFFFF, 0xFF, vec![]),
        (0x0003, 0x02, vec![0xFF]),
        (0x7F80, 0x04, vec![0x0D]),
        (0x00AA, 0x03, vec![0xA2]),
        (0x1234, 0x00, vec![0xAB, 0xCD]),
        (0x0010, 0x00, vec![0x00, 0x15, 0x51]),
        (0xFEDC, 0xBA, vec![0x98, 0x76, 0x54]),
    ];
    for (a, t, d) in &frames {
        for nl in [false, true] {
            for mode in 0..3u8 {
                let s = mixed_case(&ref_encode(*a, *t, d, nl), mode);
                out.push((format!("valid a={:04X} t={:02X} len={} nl={} case={}", a, t, d.len(), nl, mode), s));
            }
        }
    }
    out.push(("valid 16-byte data".into(), ref_encode(0x0020, 0, &fill(16, 5, seed), true)));
    let v = ref_encode(0x0003, 0x02, &[0xFF], false);
    let with = |suffix: &[u8]| {
        let mut x = v.clone();
        x.extend_from_slice(suffix);
        x
    };
    out.push(("near: doubled CRLF".into(), with(b"\r\n\r\n")));
    out.push(("near: bare LF".into(), with(b"\n")));
    out.push(("near: bare CR".into(), with(b"\r")));
    out.push(("near: LF CR".into(), with(b"\n\r")));
    let mut two = with(b"\r\n");
    two.extend_from_slice(&with(b"\r\n"));
    out.push(("near: two frames back to back".into(), two));
    let mut lead = vec![0u8];
    lead.extend_from_slice(&with(b"\r\n"));
    out.push(("near: leading NUL".into(), lead));
    out.push(("near: trailing NUL".into(), with(b"\r\n\0")));
    out.push(("near: trailing FF".into(), with(&[0xFF])));
    let mut sp = vec![b' '];
    sp.extend_from_slice(&v);
    out.push(("near: leading space".into(), sp));
    out.push(("near: trailing space".into(), with(b" ")));
    out.push(("near: wrong checksum".into(), b":01000302FF00".to_vec()));
    out.push(("near: wrong length".into(), b":02000302FFFA".to_vec()));
    out.push(("near: minimal".into(), b":0000000000".to_vec()));
    // more than 255 data bytes with a length field that agrees modulo 256 and a consistent checksum
    {
        let mut x = b":00000000".to_vec();
        x.extend(std::iter::repeat(b'0').take(512));
        x.extend_from_slice(b"00");
        out.push(("near: declares 0, carries 256 data bytes".into(), x));
    }
    out
}

pub fn run(ctx: &Ctx) -> Report {
    let mut rep = Report::new(ctx);
    let thorough = ctx.tier.thorough();
    rep.rule = "S1: every string over the 28-symbol structural alphabet of length 0..=L; S2: every string within edit distance k (substitute/insert any of the 28 symbols, delete) \
                of each valid or near-valid base; S3: every position x all 256 byte values on long bases. Every string is decoded by the implementation and by the reference parser. \
                Non-trivial = the reference parser does not call it malformed (accept / length mismatch / bad checksum), distinct by bytes"
        .into();
    rep.trusted_base = vec!["refmodel::ref_parse (hand-written index-arithmetic Intel-HEX parser, 45 lines)".into()];
    let mut all = Acc::default();

    // S1
    let maxlen: u32 = if thorough { 6 } else { 5 };
    let mut total: u64 = 0;
    for l in 0..=maxlen {
        let n = 28u64.pow(l);
        total += n;
        let accs = par_range(n, 65536, Acc::default, |acc, i| {
            let mut s = [0u8; 8];
            let mut x = i;
            for j in 0..l as usize {
                s[j] = SIGMA[(x % 28) as usize];
                x /= 28;
            }
            eval(acc, &s[..l as usize], ((l as u64) << 40) | i, i % 4096 == 0, true);
        });
        for a in accs {
            all.merge(ID, a);
        }
    }
    rep.set("S1", json!({"alphabet": 28, "max_len": maxlen, "strings": total}));
    let s1_nontrivial = all.nontrivial_fp.len();

    // S2
    let bs = bases(ctx.seed);
    let mut jobs: Vec<(usize, Vec<u8>, u32)> = vec![]; // (base idx, start string, remaining k)
    let mut k_of_base = vec![];
    for (bi, (name, b)) in bs.iter().enumerate() {
        let k: u32 = if b.len() > 60 {
            1 // long bases: distance 1 only (S3 covers every position x every byte value on them)
        } else if thorough {
            if b.len() <= 11 && name.contains("case=0") && name.contains("a=0000") {
                3
            } else {
                2
            }
        } else if bi % 6 == 0 || name.starts_with("near: wrong") {
            2
        } else {
            1
        };
        k_of_base.push(k);
        jobs.push((bi, b.clone(), 0));
        if k >= 1 {
            for e in first_edits(b) {
                jobs.push((bi, e, k - 1));
            }
        }
    }
    let base_order = 1u64 << 50;
    let accs = par_range(jobs.len() as u64, 1, Acc::default, |acc, j| {
        let (_bi, ref start, k) = jobs[j as usize];
        let mut s = start.clone();
        let mut c = 0u64;
        let track = k < 2; // bound the memory of the distinct count: deep subtrees are counted by evaluations only
        neighbours(&mut s, k, &mut |x| {
            c += 1;
            eval(acc, x, base_order + (j << 24) + (c & 0xFFFFFF), c % 16 == 1, track);
        });
    });
    let before = all.evals;
    for a in accs {
        all.merge(ID, a);
    }
    rep.set(
        "S2",
        json!({"bases": bs.len(), "k_per_base": k_of_base, "jobs": jobs.len(), "strings": all.evals - before,
               "note": "strings within distance k are generated with repetitions (different edit paths to the same string); distinct_nontrivial deduplicates those it tracks"}),
    );

    // S3
    let mut s3_bases: Vec<Vec<u8>> = vec![];
    for (i, (_, b)) in bs.iter().enumerate() {
        if i % 4 == 0 && s3_bases.len() < (if thorough { 18 } else { 4 }) {
            s3_bases.push(b.clone());
        }
    }
    s3_bases.push(ref_encode(0x1234, 0, &fill(255, 9, ctx.seed), true));
    if thorough {
        s3_bases.push(ref_encode(0xFFFF, 0xFF, &vec![0xFF; 255], false));
    }
    let mut s3_jobs: Vec<(usize, usize)> = vec![];
    for (bi, b) in s3_bases.iter().enumerate() {
        for p in 0..b.len() {
            s3_jobs.push((bi, p));
        }
    }
    let before = all.evals;
    let accs = par_range(s3_jobs.len() as u64, 8, Acc::default, |acc, j| {
        let (bi, p) = s3_jobs[j as usize];
        let mut s = s3_bases[bi].clone();
        for v in 0..=255u8 {
            s[p] = v;
            eval(acc, &s, (2u64 << 50) + (j << 8) + v as u64, true, true);
        }
    });
    for a in accs {
        all.merge(ID, a);
    }
    rep.set("S3", json!({"bases": s3_bases.len(), "positions": s3_jobs.len(), "strings": all.evals - before}));

    // S4: call sequences (all ordered pairs and triples of the representatives, each on a fresh thread)
    let reps = representatives(ctx.seed);
    let n = reps.len() as u64;
    let nseq = n * n + n * n * n;
    let accs = par_range(nseq, 16, Acc::default, |acc, i| {
        let idx: Vec<usize> = if i < n * n { vec![(i / n) as usize, (i % n) as usize] } else { let j = i - n * n; vec![(j / (n * n)) as usize, ((j / n) % n) as usize, (j % n) as usize] };
        acc.evals += idx.len() as u64;
        let strings: Vec<Vec<u8>> = idx.iter().map(|&k| reps[k].clone()).collect();
        for (clause, class, detail) in check_string_sequence(strings.clone()) {
            acc.violation(ID, Violation::new(clause, class, detail, json!({"kind": "sequence", "strings": strings.iter().map(|x| hex(x)).collect::<Vec<_>>()}), (3u64 << 50) + i));
        }
    });
    for a in accs {
        all.merge(ID, a);
    }
    rep.set("S4", json!({"representatives": n, "sequences": nseq, "note": "decode sequences on a fresh thread each: a result must not depend on earlier calls"}));
    // S5: digit slots filled with multi-byte UTF-8 characters (Unicode decimal digits and other non-ASCII characters):
    // a digit class that is not restricted to ASCII lets them through to the hex conversion
    let tokens: [&[u8]; 9] = [b"0", b"A", "\u{0660}".as_bytes(), "\u{06F1}".as_bytes(), "\u{FF11}".as_bytes(), "\u{1D7CE}".as_bytes(), "\u{00B2}".as_bytes(), "\u{00E9}".as_bytes(), "\u{0967}".as_bytes()];
    let slots = 12usize; // ':' + 12 digit tokens = a frame with one data byte when all are ASCII
    let mut s5: Vec<Vec<u8>> = vec![];
    for a in 0..slots {
        for ta in 2..tokens.len() {
            for b in a..slots {
                for tb in 1..tokens.len() {
                    for nl in [false, true] {
                        let mut st = vec![b':'];
                        for k in 0..slots {
                            st.extend_from_slice(if k == a { tokens[ta] } else if k == b { tokens[tb] } else { tokens[0] });
                        }
                        if nl {
                            st.extend_from_slice(b"\r\n");
                        }
                        s5.push(st);
                    }
                }
            }
        }
    }
    let accs = par_range(s5.len() as u64, 64, Acc::default, |acc, i| {
        eval(acc, &s5[i as usize], (4u64 << 50) + i, true, true);
    });
    for a in accs {
        all.merge(ID, a);
    }
    rep.set("S5", json!({"strings": s5.len(), "note": "one or two digit slots of a frame-shaped string replaced by multi-byte UTF-8 characters (Arabic-Indic, Extended Arabic-Indic, full-width, mathematical and Devanagari digits, superscript two, e-acute)"}));
    all.samples.push(json!({"string": ":01000302ff FB -> shown", "example_valid": show_bytes(&bs[13].1), "reference": format!("{:?}", ref_parse(&bs[13].1))}));
    all.samples.push(json!({"string": show_bytes(b":02000302FFFA"), "reference": format!("{:?}", ref_parse(b":02000302FFFA")), "implementation": format!("{:?}", Frame::from_bytes(b":02000302FFFA").map_err(|e| e.to_string()))}));
    all.samples.push(json!({"string": show_bytes(b":0\r\n:g"), "reference": format!("{:?}", ref_parse(b":0\r\n:g"))}));
    let nt = rep.absorb(all);
    rep.states = nt;
    rep.transitions = rep.evaluations;
    rep.set("S1_nontrivial", json!(s1_nontrivial));
    let h = rep.outcomes.clone();
    for c in ["accept", "malformed", "length-mismatch", "bad-checksum"] {
        rep.guard(&format!("class-{}-reached", c), h.get(c) > 0, format!("{} strings", h.get(c)));
    }
    rep.assumptions.push("acceptance needs >= 11 bytes, so S1 (length <= 5/6) proves totality and 'nothing short is accepted'; acceptance behaviour is covered by the S2/S3 neighbourhoods of validity".into());
    rep
}

pub fn replay(_ctx: &Ctx, case: &Value) -> Result<Vec<Violation>, String> {
    if case["kind"].as_str() == Some("sequence") {
        let strings: Vec<Vec<u8>> = case["strings"].as_array().ok_or("strings")?.iter().map(|x| unhex(x.as_str().unwrap_or(""))).collect();
        return Ok(check_string_sequence(strings).into_iter().map(|(c, k, d)| Violation::new(c, k, d, case.clone(), 0)).collect());
    }
    if case["kind"].as_str() != Some("string") {
        return Err("unknown case kind".into());
    }
    let s = unhex(case["bytes"].as_str().ok_or("bytes")?);
    let (_, v) = check_string(&s, true);
    Ok(v.into_iter().map(|(c, k, d)| Violation::new(c, k, d, case.clone(), 0)).collect())
}
