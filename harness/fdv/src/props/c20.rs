//! C20 — port set-up always yields 19200 8N1 without flow control, or an error
//! (E3/E4: exhaustive product of prior settings x constructors x a fault at each configuration call).

use std::cell::RefCell;
use std::rc::Rc;
use std::time::Duration;

use flipdot_core::{Message, SignBus};
use flipdot_serial::SerialSignBus;
use flipdot_testing::{Odk, VirtualSignBus};
use serde_json::{json, Value};
use serial_core::{BaudRate, CharSize, FlowControl, Parity, StopBits};

use crate::devices::*;
use crate::report::{Acc, Ctx, Report, Violation};
use crate::util::{catch, par_range};

const ID: &str = "C20";

struct NullBus;
impl SignBus for NullBus {
    fn process_message<'a>(&mut self, _m: Message<'_>) -> Result<Option<Message<'a>>, Box<dyn std::error::Error + Send + Sync>> {
        Ok(None)
    }
}

fn bauds() -> Vec<BaudRate> {
    use BaudRate::*;
    vec![Baud110, Baud300, Baud600, Baud1200, Baud2400, Baud4800, Baud9600, Baud19200, Baud38400, Baud57600, Baud115200, BaudOther(0), BaudOther(19200), BaudOther(250000)]
}
const CHARS: [CharSize; 4] = [CharSize::Bits5, CharSize::Bits6, CharSize::Bits7, CharSize::Bits8];
const PARS: [Parity; 3] = [Parity::ParityNone, Parity::ParityOdd, Parity::ParityEven];
const STOPS: [StopBits; 2] = [StopBits::Stop1, StopBits::Stop2];
const FLOWS: [FlowControl; 3] = [FlowControl::FlowNone, FlowControl::FlowSoftware, FlowControl::FlowHardware];
const PRIOR_TIMEOUTS_MS: [u64; 3] = [0, 1, 3_600_000];
// in microseconds: whole milliseconds, sub-millisecond values and one with a fractional millisecond
const CALLER_TIMEOUTS_US: [u64; 7] = [0, 500, 781, 1_000, 1_500, 5_000_000, 3_600_000_000];
const KINDS: [serial_core::ErrorKind; 5] = [
    serial_core::ErrorKind::NoDevice,
    serial_core::ErrorKind::InvalidInput,
    serial_core::ErrorKind::Io(std::io::ErrorKind::PermissionDenied),
    // the two kinds a caller might be tempted to retry
    serial_core::ErrorKind::Io(std::io::ErrorKind::Interrupted),
    serial_core::ErrorKind::Io(std::io::ErrorKind::WouldBlock),
];
const N_KINDS: u64 = 5;
const CALLS: [CfgCall; 4] = [CfgCall::ReadSettings, CfgCall::SetBaudRate, CfgCall::WriteSettings, CfgCall::SetTimeout];

#[derive(Clone, Debug)]
pub struct Case {
    line: Line,
    prior_timeout_ms: u64,
    /// 0 = SerialSignBus::try_new, 1 = Odk::try_new, 2.. = configure_port with CALLER_TIMEOUTS_MS[c-2]
    ctor: usize,
    fault: Option<(usize, usize)>,
    /// 0 = every occurrence of the call fails, k = only the k-th
    occurrence: usize,
}

fn line_json(l: &Line) -> Value {
    json!(format!("{:?}/{:?}/{:?}/{:?}/{:?}", l.baud, l.char_size, l.parity, l.stop_bits, l.flow))
}

fn case_json(c: &Case, idx: u64) -> Value {
    json!({"kind": "port", "index": idx, "prior": line_json(&c.line), "prior_timeout_ms": c.prior_timeout_ms,
           "constructor": match c.ctor { 0 => "SerialSignBus::try_new".to_string(), 1 => "Odk::try_new".to_string(), k => format!("configure_port(timeout={}us)", CALLER_TIMEOUTS_US[k - 2]) },
           "fault": c.fault.map(|(call, kind)| format!("{:?} fails with {:?} ({})", CALLS[call], KINDS[kind], if c.occurrence == 0 { "every time".to_string() } else { format!("only call #{}", c.occurrence) }))})
}

const N_CTOR: u64 = 9;
const N_FAULT: u64 = 1 + 4 * N_KINDS; // none + 4 calls x 5 kinds
const N_OCC: u64 = 4; // every occurrence, or only the 1st / 2nd / 3rd

pub fn total_cases() -> u64 {
    bauds().len() as u64 * 4 * 3 * 2 * 3 * PRIOR_TIMEOUTS_MS.len() as u64 * N_CTOR * N_FAULT * N_OCC
}

pub fn nth_case(mut i: u64) -> Case {
    let occurrence = (i % N_OCC) as usize;
    i /= N_OCC;
    let f = i % N_FAULT;
    i /= N_FAULT;
    let ctor = (i % N_CTOR) as usize;
    i /= N_CTOR;
    let pt = PRIOR_TIMEOUTS_MS[(i % 3) as usize];
    i /= 3;
    let flow = FLOWS[(i % 3) as usize];
    i /= 3;
    let stop = STOPS[(i % 2) as usize];
    i /= 2;
    let par = PARS[(i % 3) as usize];
    i /= 3;
    let cs = CHARS[(i % 4) as usize];
    i /= 4;
    let baud = bauds()[i as usize];
    Case { line: Line { baud, char_size: cs, parity: par, stop_bits: stop, flow }, prior_timeout_ms: pt, ctor, fault: if f == 0 { None } else { Some((((f - 1) / N_KINDS) as usize, ((f - 1) % N_KINDS) as usize)) }, occurrence }
}

pub fn check_case(c: &Case) -> (String, Vec<(&'static str, String, String)>) {
    let log = new_log();
    let io = Rc::new(RefCell::new(ScriptIo::new(vec![], log.clone())));
    let fault = c.fault.map(|(call, kind)| (CALLS[call], KINDS[kind]));
    let mut port = ScriptPort::new(io, c.line, Duration::from_millis(c.prior_timeout_ms), fault);
    port.fault_occurrence = c.occurrence;
    let line = port.line.clone();
    let timeout = port.timeout.clone();
    let ctor = c.ctor;
    let r = catch(move || -> Result<(), serial_core::Error> {
        match ctor {
            0 => SerialSignBus::try_new(port).map(|_| ()),
            1 => Odk::try_new(port, NullBus).map(|_| ()),
            k => {
                let mut port = port;
                flipdot_serial::configure_port(&mut port, Duration::from_micros(CALLER_TIMEOUTS_US[k - 2]))
            }
        }
    });
    // "with a read timeout applied (the caller's value when the port is configured directly)": the constructors'
    // own default values are not part of the statement, only that some non-zero timeout is set
    let want_timeout = match c.ctor {
        0 | 1 => None,
        k => Some(Duration::from_micros(CALLER_TIMEOUTS_US[k - 2])),
    };
    let ctor_name = ["try_new", "odk", "configure_port", "configure_port", "configure_port", "configure_port", "configure_port", "configure_port", "configure_port"][c.ctor];
    let mut out = vec![];
    let events = log.borrow().clone();
    let outcome;
    match r {
        Err(p) => {
            outcome = "panic".to_string();
            out.push(("no-panic", p.class(), format!("constructor panicked: {}", p.message)));
        }
        Ok(res) => match (fault.filter(|_| events.iter().any(|e| matches!(e, Ev::ReadSettings(Err(_)) | Ev::SetBaud(_, Err(_)) | Ev::WriteSettings(_, Err(_)) | Ev::SetTimeout(_, Err(_))))), res) {
            (None, Ok(())) => {
                outcome = "ok".into();
                let got = *line.borrow();
                if got != WANT_LINE {
                    let mut wrong = vec![];
                    if got.baud != WANT_LINE.baud {
                        wrong.push("baud");
                    }
                    if got.char_size != WANT_LINE.char_size {
                        wrong.push("char-size");
                    }
                    if got.parity != WANT_LINE.parity {
                        wrong.push("parity");
                    }
                    if got.stop_bits != WANT_LINE.stop_bits {
                        wrong.push("stop-bits");
                    }
                    if got.flow != WANT_LINE.flow {
                        wrong.push("flow-control");
                    }
                    out.push(("line-settings", format!("{}:{}", ctor_name, wrong.join("+")), format!("port left at {:?} (prior {:?})", got, c.line)));
                }
                let applied = *timeout.borrow();
                let timeout_set = events.iter().any(|e| matches!(e, Ev::SetTimeout(_, Ok(()))));
                match want_timeout {
                    Some(w) if applied != w => out.push(("timeout-applied", format!("{}:value", ctor_name), format!("timeout is {:?}, the caller asked for {:?}", applied, w))),
                    None if timeout_set && applied.is_zero() => out.push(("timeout-applied", format!("{}:zero", ctor_name), format!("the constructor set a zero read timeout"))),
                    _ => {}
                }
                let wpos = events.iter().position(|e| matches!(e, Ev::WriteSettings(_, Ok(()))));
                let tpos = events.iter().position(|e| matches!(e, Ev::SetTimeout(_, Ok(()))));
                match (wpos, tpos) {
                    (Some(_), Some(_)) => {}
                    _ => out.push(("settings-written-and-timeout-set", format!("{}:missing-call", ctor_name), format!("events: {:?}", events))),
                }
            }
            (None, Err(e)) => {
                outcome = "spurious-error".into();
                out.push(("no-fault-means-ok", format!("{}:{:?}", ctor_name, e.kind()), format!("no fault injected but the constructor failed: {}", e)));
            }
            (Some((call, kind)), Err(e)) => {
                outcome = format!("err:{:?}", call);
                if e.kind() != kind {
                    out.push(("error-propagated", format!("{}:{:?}:wrong-kind", ctor_name, call), format!("injected {:?} at {:?}, constructor returned {:?}", kind, call, e.kind())));
                }
            }
            (Some((call, kind)), Ok(())) => {
                // The failing call was reached and the constructor still returned an object. If the call fails every
                // time the port has refused and an error is due. If it failed once only, trying again is allowed,
                // but then the object must be fully configured: line settings written, a timeout set successfully.
                let got = *line.borrow();
                let wrote = events.iter().any(|e| matches!(e, Ev::WriteSettings(_, Ok(()))));
                let timeout_set = events.iter().any(|e| matches!(e, Ev::SetTimeout(_, Ok(()))));
                let applied = *timeout.borrow();
                let timeout_ok = timeout_set && match want_timeout {
                    Some(w) => applied == w,
                    None => !applied.is_zero(),
                };
                if c.occurrence == 0 {
                    outcome = format!("swallowed:{:?}", call);
                    out.push(("error-propagated", format!("{}:{:?}:swallowed-{:?}", ctor_name, call, kind), format!("{:?} failed with {:?} every time but the constructor returned an object (line now {:?}, timeout {:?})", call, kind, got, applied)));
                } else if got != WANT_LINE || !wrote || !timeout_ok {
                    outcome = format!("half-configured-after:{:?}", call);
                    out.push(("error-propagated", format!("{}:{:?}:half-configured-after-{:?}", ctor_name, call, kind), format!("{:?} failed once with {:?}; the constructor returned an object that is not fully configured (line {:?}, settings written: {}, timeout set: {} = {:?})", call, kind, got, wrote, timeout_set, applied)));
                } else {
                    outcome = format!("retried-ok:{:?}", call);
                }
            }
        },
    }
    (outcome, out)
}

pub fn run(ctx: &Ctx) -> Report {
    let mut rep = Report::new(ctx);
    rep.rule = "exhaustive product: 14 prior baud values (11 standard + BaudOther 0/19200/250000) x 4 char sizes x 3 parities x 2 stop bits x 3 flow controls x 3 prior timeouts x \
                {SerialSignBus::try_new, Odk::try_new, configure_port with 4 caller timeouts} x {no fault, or a failure of read_settings / set_baud_rate / write_settings / set_timeout with 3 error kinds, on every occurrence of that call or only on its 1st / 2nd / 3rd occurrence}; \
                every case constructs on a scripted SerialDevice that records every configuration call. Non-trivial = all (each runs the real constructor); distinct by construction (product index)"
        .into();
    rep.trusted_base = vec!["devices.rs ScriptPort/ScriptSettings".into(), "serial-core's blanket SerialPort::reconfigure".into()];
    let n = total_cases();
    // Cases are visited in a fixed stride permutation of the index space, so that every value of every dimension
    // (each prior baud rate, each constructor, each fault) is met early, and the budget is polled: a set-up routine
    // that waits (say one character time at the old rate) makes a full pass take hours, and the run must then stop
    // with what it has, non-exhaustively, instead of hanging.
    const STRIDE: u64 = 1_000_003;
    let skipped = std::sync::atomic::AtomicU64::new(0);
    let over = std::sync::atomic::AtomicBool::new(false);
    let budget = ctx.clone();
    let accs = par_range(n, 512, Acc::default, |acc, j| {
        let i = ((j as u128 * STRIDE as u128) % n as u128) as u64;
        if over.load(std::sync::atomic::Ordering::Relaxed) {
            skipped.fetch_add(1, std::sync::atomic::Ordering::Relaxed);
            return;
        }
        if j % 64 == 0 && budget.over_budget() {
            over.store(true, std::sync::atomic::Ordering::Relaxed);
        }
        let c = nth_case(i);
        acc.evals += 1;
        acc.nontrivial_fp.push(i);
        let (outcome, vs) = check_case(&c);
        acc.outcomes.add(&outcome);
        for (clause, class, detail) in vs {
            acc.violation(ID, Violation::new(clause, class, format!("{} | case {}", detail, case_json(&c, i)), case_json(&c, i), i));
        }
    });
    let mut all = Acc::default();
    for a in accs {
        all.merge(ID, a);
    }
    let skipped = skipped.load(std::sync::atomic::Ordering::Relaxed);
    if skipped > 0 {
        rep.cap(format!("wall-clock budget reached: {} of {} constructions were not run (the others were taken in a stride permutation over all dimensions)", skipped, n));
    }
    for i in [0u64, 4000, n / 2 + 7, n - 1] {
        all.samples.push(case_json(&nth_case(i), i));
    }
    let nt = rep.absorb(all);
    rep.states = nt;
    rep.transitions = rep.evaluations;
    rep.guard("ok-and-every-fault-point-seen", rep.outcomes.get("ok") > 0 && CALLS.iter().all(|c| rep.outcomes.get(&format!("err:{:?}", c)) > 0) || !rep.violations.is_empty(), format!("{:?}", rep.outcomes.0));
    rep
}

pub fn replay(_ctx: &Ctx, case: &Value) -> Result<Vec<Violation>, String> {
    if case["kind"].as_str() != Some("port") {
        return Err("unknown case kind".into());
    }
    let i = case["index"].as_u64().ok_or("index")?;
    if i >= total_cases() {
        return Err("index out of range".into());
    }
    let c = nth_case(i);
    let (_, vs) = check_case(&c);
    Ok(vs.into_iter().map(|(cl, k, d)| Violation::new(cl, k, d, case.clone(), 0)).collect())
}

#[allow(dead_code)]
fn _unused(_: VirtualSignBus<'static>) {}
