//! C16 — serial bus: one frame out per message, one frame in exactly when a reply is due
//! (E3/E4 over the real SerialSignBus on a scripted port, virtual clock).

use std::io;

use flipdot_core::{Address, ChunkCount, Data, Frame, Message, MsgType, Offset};
use serde_json::{json, Value};

use crate::devices::{serial_run, Ev, RAns, WAns};
use crate::props::c15::{rans_from, rans_str, wans_from, wans_str};
use crate::refmodel::{impl_decode_msg, impl_wire, kind_name, msg_from_json, msg_json, msg_str, ref_encode, ref_wire, OPS, STATES};
use crate::report::{Acc, Ctx, Report, Violation};
use crate::util::{fill, hex, par_range, show_bytes, unhex};

const ID: &str = "C16";
type V = (&'static str, String, String);

pub fn reply_due(m: &Message<'_>) -> bool {
    matches!(m, Message::Hello(_) | Message::QueryState(_) | Message::RequestOperation(_, _))
}

pub fn messages(seed: u64) -> Vec<Message<'static>> {
    let mut v: Vec<Message<'static>> = vec![];
    for off in [0u16, 16, 0xFFF0, 0xFFFF] {
        for l in [0usize, 1, 2, 16, 255] {
            v.push(Message::SendData(Offset(off), Data::try_new(fill(l, off as u64, seed)).unwrap()));
        }
    }
    // every data length once (the frame length field and the write loop see every size)
    for l in 0..=255usize {
        if ![0usize, 1, 2, 16, 255].contains(&l) {
            v.push(Message::SendData(Offset(0x0100 + l as u16), Data::try_new(fill(l, 77, seed)).unwrap()));
        }
    }
    for c in [0u16, 1, 6, 65535] {
        v.push(Message::DataChunksSent(ChunkCount(c)));
    }
    for a in [0u16, 3, 0x7F, 0xABCD, 0xFFFF] {
        let a = Address(a);
        v.push(Message::Hello(a));
        v.push(Message::QueryState(a));
        v.push(Message::Goodbye(a));
        v.push(Message::PixelsComplete(a));
    }
    for (i, s) in STATES.iter().enumerate() {
        v.push(Message::ReportState(Address(if i % 2 == 0 { 3 } else { 0xABCD }), s.0));
    }
    for (i, o) in OPS.iter().enumerate() {
        v.push(Message::RequestOperation(Address(if i % 2 == 0 { 3 } else { 0xABCD }), o.0));
        v.push(Message::AckOperation(Address(if i % 2 == 0 { 0xABCD } else { 3 }), o.0));
    }
    // unknown frames, including ones that share the type byte of reply-expecting messages
    for (t, d) in [(7u8, vec![1u8, 2]), (2, vec![0x77]), (3, vec![0x00]), (2, vec![0xFF, 0x00]), (4, vec![]), (0xFF, vec![0xFF; 3])] {
        v.push(Message::Unknown(Frame::new(Address(3), MsgType(t), Data::try_new(d).unwrap())));
    }
    v
}

/// (name, first line on the tape). The sentinel line is appended by the caller.
pub fn replies() -> Vec<(String, Vec<u8>)> {
    let mut v: Vec<(String, Vec<u8>)> = vec![];
    for s in STATES.iter() {
        v.push((format!("report {:?}", s.0), ref_encode(3, 4, &[s.1], true)));
    }
    for o in OPS.iter() {
        v.push((format!("ack {:?}", o.0), ref_encode(3, 5, &[o.2], true)));
    }
    v.push(("report foreign".into(), ref_encode(0xABCD, 4, &[0x0F], true)));
    v.push(("hello".into(), ref_encode(3, 2, &[0xFF], true)));
    v.push(("count".into(), ref_encode(7, 1, &[], true)));
    v.push(("data chunk 16".into(), ref_encode(16, 0, &[0x5A; 16], true)));
    v.push(("data chunk 0".into(), ref_encode(0, 0, &[], true)));
    v.push(("data chunk 254 (longest line but one)".into(), ref_encode(0x0100, 0, &[0xA5; 254], true)));
    v.push(("data chunk 255 (longest possible line)".into(), ref_encode(0xFFF0, 0, &[0x5A; 255], true)));
    v.push(("pixels complete".into(), ref_encode(3, 6, &[0], true)));
    v.push(("unknown frame".into(), ref_encode(3, 9, &[1, 2, 3], true)));
    v.push(("lower-case hex".into(), ref_encode(0xABCD, 4, &[0x0D], true).to_ascii_lowercase()));
    v.push(("no CR".into(), {
        let mut x = ref_encode(3, 4, &[0x0F], false);
        x.push(b'\n');
        x
    }));
    v.push(("bad checksum".into(), b":01000304 0FFF\r\n".iter().copied().filter(|b| *b != b' ').collect()));
    v.push(("bad length".into(), b":02000304 0FEA\r\n".iter().copied().filter(|b| *b != b' ').collect()));
    v.push(("non-hex".into(), b":0100030gFF00\r\n".to_vec()));
    v.push(("missing colon".into(), b"010003040FE9\r\n".to_vec()));
    v.push(("bare LF".into(), b"\n".to_vec()));
    v.push(("CRLF only".into(), b"\r\n".to_vec()));
    v.push(("garbage before frame".into(), {
        let mut x = b"xx".to_vec();
        x.extend(ref_encode(3, 4, &[0x0F], true));
        x
    }));
    v.push(("empty tape (EOF)".into(), vec![]));
    v
}

pub const SENTINEL: &[u8] = b":01FFFF040810\r\n";

/// One message through the real serial bus against a scripted port; all C16 clauses.
pub fn check_exchange(m: &Message<'static>, first_line: &[u8], with_sentinel: bool, rscript: &[RAns], wscript: &[WAns], at_end: &RAns) -> (String, Vec<V>) {
    let (m2, l, r, w, a) = (m.clone(), first_line.to_vec(), rscript.to_vec(), wscript.to_vec(), at_end.clone());
    crate::util::maybe_isolated(move || check_exchange_here(&m2, &l, with_sentinel, &r, &w, &a))
}

fn check_exchange_here(m: &Message<'static>, first_line: &[u8], with_sentinel: bool, rscript: &[RAns], wscript: &[WAns], at_end: &RAns) -> (String, Vec<V>) {
    let mut tape = first_line.to_vec();
    if with_sentinel {
        tape.extend_from_slice(SENTINEL);
    }
    let run = serial_run(std::slice::from_ref(m), tape.clone(), rscript.to_vec(), wscript.to_vec(), at_end.clone(), true);
    let mut out: Vec<V> = vec![];
    if !run.setup_ok || run.exchanges.len() != 1 {
        out.push(("setup", "try_new-failed".into(), "SerialSignBus::try_new failed on a healthy scripted port".into()));
        return ("setup-failed".into(), out);
    }
    let ex = &run.exchanges[0];
    let want_wire = impl_wire(m);
    let due = reply_due(m);
    let kind = match m {
        Message::Unknown(f) => format!("Unknown-type{:02X}", f.message_type().0),
        Message::SendData(_, d) => format!("SendData-len{}", match d.get().len() { 0 => "0", 1 => "1", _ => "2+" }),
        other => kind_name(other).to_string(),
    };
    let desc = format!("{} with port input {} (read answers [{}], write answers [{}])", msg_str(m), show_bytes(&tape[..tape.len().min(48)]), rscript.iter().map(rans_str).collect::<Vec<_>>().join(","), wscript.iter().map(wans_str).collect::<Vec<_>>().join(","));
    if let Some(p) = &ex.panicked {
        out.push(("no-panic", p.class(), format!("{} panicked: {}", desc, p.message)));
        return ("panic".into(), out);
    }
    // classify what the environment did
    let mut write_fatal = false;
    // an accept of zero bytes: the bus may give up with an error or ask the port again (not a failure in itself)
    let mut write_zero = false;
    let mut read_fatal = false;
    let mut reads = 0usize;
    let mut first_read_idx: Option<usize> = None;
    let mut last_write_idx: Option<usize> = None;
    for (i, e) in ex.events.iter().enumerate() {
        match e {
            Ev::Write { got, offered, .. } => {
                last_write_idx = Some(i);
                match got {
                    Err(io::ErrorKind::Interrupted) => {}
                    Err(_) => write_fatal = true,
                    Ok(0) if *offered > 0 => write_zero = true,
                    _ => {}
                }
            }
            Ev::Read { got, .. } => {
                reads += 1;
                if first_read_idx.is_none() {
                    first_read_idx = Some(i);
                }
                match got {
                    Err(io::ErrorKind::Interrupted) => {}
                    Err(_) => read_fatal = true,
                    _ => {}
                }
            }
            _ => {}
        }
    }
    if write_zero && !write_fatal && ex.result.is_err() && ex.written != want_wire {
        write_fatal = true; // the bus gave up after the zero-byte accept: judged like a write failure
    }
    let outcome: String;
    // 1. what was written
    if !write_fatal {
        if ex.written != want_wire {
            let cls = if ex.written.is_empty() { "nothing-written" } else if ex.written.starts_with(&want_wire) { "extra-bytes" } else { "different-bytes" };
            out.push(("writes-exactly-the-frame", format!("{}:{}", kind, cls), format!("{}: port received {} but the frame is {}", desc, show_bytes(&ex.written[..ex.written.len().min(60)]), show_bytes(&want_wire[..want_wire.len().min(60)]))));
        }
    } else if !want_wire.starts_with(&ex.written) {
        out.push(("writes-exactly-the-frame", format!("{}:not-a-prefix-before-failure", kind), format!("{}: bytes written before the failure are not a prefix of the frame", desc)));
    }
    if let (Some(r), Some(w)) = (first_read_idx, last_write_idx) {
        if r < w {
            out.push(("write-before-read", kind.clone(), format!("{}: a port read happened before the frame was completely written", desc)));
        }
    }
    // 2. reads iff due; result
    if write_fatal {
        outcome = "write-failed".into();
        if reads > 0 {
            out.push(("reads-iff-reply-due", format!("{}:read-after-write-failure", kind), format!("{}: {} read call(s) after the write failed", desc, reads)));
        }
        if ex.result.is_ok() {
            out.push(("failure-is-an-error", format!("{}:write-failure-swallowed", kind), format!("{}: the write failed but the result is {:?}", desc, ex.result.as_ref().map(|o| o.as_ref().map(|x| msg_str(x))))));
        }
    } else if !due {
        outcome = "no-reply-due".into();
        if reads > 0 {
            out.push(("reads-iff-reply-due", format!("{}:read-without-reply-due", kind), format!("{}: {} read call(s) although no reply is due ({} byte(s) consumed)", desc, reads, ex.tape_pos_after)));
        }
        match &ex.result {
            Ok(None) => {}
            Ok(Some(x)) => out.push(("reads-iff-reply-due", format!("{}:reply-invented", kind), format!("{}: returned {} although no reply is due", desc, msg_str(x)))),
            Err(e) => out.push(("reads-iff-reply-due", format!("{}:error-without-fault", kind), format!("{}: returned error {} although nothing failed", desc, e))),
        }
    } else {
        // reply due
        if reads == 0 {
            out.push(("reads-iff-reply-due", format!("{}:no-read-although-due", kind), format!("{}: no read although a reply is due; result {:?}", desc, ex.result.as_ref().map(|o| o.as_ref().map(|x| msg_str(x))))));
            outcome = "no-read".into();
        } else if read_fatal {
            outcome = "read-failed".into();
            if ex.result.is_ok() {
                out.push(("failure-is-an-error", format!("{}:read-failure-swallowed", kind), format!("{}: the read failed but the result is {:?}", desc, ex.result.as_ref().map(|o| o.as_ref().map(|x| msg_str(x))))));
            }
        } else {
            let line_end = tape.iter().position(|&b| b == b'\n').map(|p| p + 1).unwrap_or(tape.len());
            // a premature Ok(0) ends the line early; then the line is what was consumed
            let premature_eof = ex.events.iter().any(|e| matches!(e, Ev::Read { got: Ok(0), requested } if *requested > 0)) && ex.tape_pos_after < line_end;
            let line = if premature_eof { &tape[..ex.tape_pos_after] } else { &tape[..line_end] };
            if !premature_eof && ex.tape_pos_after != line_end {
                out.push(("reads-exactly-one-line", format!("{}:{}", kind, if ex.tape_pos_after > line_end { "over-consumed" } else { "under-consumed" }), format!("{}: consumed {} bytes of input, the reply line has {}", desc, ex.tape_pos_after, line_end)));
            }
            // "returns its decoding": the codec is taken as given; a line is undecodable when Frame::from_bytes says so
            let no_complete_line = premature_eof || !line.ends_with(b"\n");
            match impl_decode_msg(line) {
                None => outcome = "decoder-panicked".into(),
                Some(Ok(want)) => {
                    outcome = "reply".into();
                    match &ex.result {
                        Ok(Some(got)) if *got == want => {}
                        Err(_) if no_complete_line => {},
                        other => out.push(("reply-is-decoding-of-the-line", format!("{}:want-{}", kind, kind_name(&want)), format!("{}: returned {:?}, the line decodes to {}", desc, other.as_ref().map(|o| o.as_ref().map(|x| msg_str(x))), msg_str(&want)))),
                    }
                }
                Some(Err(bad)) => {
                    outcome = format!("undecodable:{}", bad.split(|c: char| !c.is_ascii_alphanumeric()).next().unwrap_or(""));
                    if let Ok(r) = &ex.result {
                        out.push(("failure-is-an-error", format!("{}:undecodable-reply-{}", kind, if r.is_some() { "invented" } else { "turned-into-none" }), format!("{}: the reply line {} is rejected by Frame::from_bytes ({}) but the result is {:?}", desc, show_bytes(line), bad, r.as_ref().map(|x| msg_str(x)))));
                    }
                }
            }
        }
    }
    (outcome, out)
}

/// A failed exchange must not leak into the next one on the same bus: m1 fails (write fault `wf`, or a hard read
/// error at read call `rf`), then m2 is sent with a healthy port. Exchange 2 is judged.
pub fn check_after_failure(m1: &Message<'static>, wf: &[WAns], rf: Option<usize>, m2: &Message<'static>, line2: &[u8]) -> (String, Vec<V>) {
    let (a, w, b, l) = (m1.clone(), wf.to_vec(), m2.clone(), line2.to_vec());
    crate::util::maybe_isolated(move || check_after_failure_here(&a, &w, rf, &b, &l))
}

fn check_after_failure_here(m1: &Message<'static>, wf: &[WAns], rf: Option<usize>, m2: &Message<'static>, line2: &[u8]) -> (String, Vec<V>) {
    let mut tape = vec![];
    let mut rscript = vec![];
    if let Some(j) = rf {
        // m1's reply is cut short: only its first j bytes ever arrive, then the port reports a timeout; the next thing
        // on the wire is the complete reply to m2
        let line1 = ref_encode(3, 4, &[0x0F], true);
        tape.extend_from_slice(&line1[..j.min(line1.len() - 1)]);
        rscript = vec![RAns::Deliver(1); j.min(line1.len() - 1)];
        rscript.push(RAns::Fail(io::ErrorKind::TimedOut));
    }
    let start2 = tape.len();
    tape.extend_from_slice(line2);
    tape.extend_from_slice(SENTINEL);
    let run = serial_run(&[m1.clone(), m2.clone()], tape.clone(), rscript, wf.to_vec(), RAns::Eof, true);
    let mut out: Vec<V> = vec![];
    if !run.setup_ok || run.exchanges.len() != 2 {
        return ("setup-failed".into(), vec![("setup", "try_new-failed".into(), "could not run two exchanges".into())]);
    }
    let (e1, e2) = (&run.exchanges[0], &run.exchanges[1]);
    let desc = format!("{} after a failed {} (write answers [{}], read error at call {:?})", msg_str(m2), msg_str(m1), wf.iter().map(wans_str).collect::<Vec<_>>().join(","), rf);
    if let Some(p) = e1.panicked.as_ref().or(e2.panicked.as_ref()) {
        return ("panic".into(), vec![("no-panic", p.class(), format!("{} panicked: {}", desc, p.message))]);
    }
    if e1.result.is_ok() {
        // the first exchange did not fail after all (e.g. the message has no reply and rf was given): nothing to judge here
        return ("first-did-not-fail".into(), out);
    }
    let want = impl_wire(m2);
    if e2.written != want {
        let cls = if e2.written.ends_with(&want) && e2.written.len() > want.len() { "stale-bytes-before-the-frame" } else if e2.written.starts_with(&want) { "extra-bytes-after-the-frame" } else { "different-bytes" };
        out.push(("writes-exactly-the-frame", format!("after-failure:{}", cls), format!("{}: port received {} but the frame is {}", desc, show_bytes(&e2.written[..e2.written.len().min(80)]), show_bytes(&want[..want.len().min(40)]))));
    }
    {
        // the bytes of the cut-off reply are gone with the failed exchange; what follows on the wire is a complete line,
        // so exchange 2 must be perfectly normal
        if reply_due(m2) {
            let line_end = start2 + line2.len();
            if let Some(Ok(wantm)) = impl_decode_msg(line2) {
                if e2.result.as_ref().ok().and_then(|o| o.as_ref()) != Some(&wantm) || e2.tape_pos_after != line_end {
                    out.push(("reply-is-decoding-of-the-line", "after-failure".into(), format!("{}: returned {:?} (input position {}), the line decodes to {} (position {})", desc, e2.result.as_ref().map(|o| o.as_ref().map(|x| msg_str(x))), e2.tape_pos_after, msg_str(&wantm), line_end)));
                }
            }
        } else if !matches!(e2.result, Ok(None)) || e2.tape_pos_after != start2 {
            out.push(("reads-iff-reply-due", "after-failure".into(), format!("{}: returned {:?}, consumed {} input bytes", desc, e2.result.as_ref().map(|o| o.as_ref().map(|x| msg_str(x))), e2.tape_pos_after)));
        }
    }
    ("judged".into(), out)
}

fn case_json(m: &Message<'static>, line: &[u8], sentinel: bool, rs: &[RAns], ws: &[WAns], at_end: &RAns) -> Value {
    json!({"kind": "exchange", "message": msg_json(m), "line": hex(line), "line_shown": show_bytes(line), "sentinel": sentinel,
           "read_answers": rs.iter().map(rans_str).collect::<Vec<_>>(), "write_answers": ws.iter().map(wans_str).collect::<Vec<_>>(), "at_end": rans_str(at_end)})
}

pub fn run(ctx: &Ctx) -> Report {
    let first = run_pass(ctx);
    if first.violations.is_empty() || crate::util::ISOLATE_CASES.load(std::sync::atomic::Ordering::Relaxed) {
        return first;
    }
    // something failed: enumerate again with every case on a fresh thread, so that what is reported replays on its own
    crate::util::ISOLATE_CASES.store(true, std::sync::atomic::Ordering::Relaxed);
    let mut second = run_pass(ctx);
    if second.violations.is_empty() {
        second.machinery_errors.push(format!("the direct pass saw {} violation signature(s) (e.g. {}) that do not reproduce when every case runs on a fresh thread: the subject's results depend on calls made earlier on the same thread (hidden thread-local/global state); no self-contained case could be produced here, see C15/C03 whose cases contain the history", first.violations.len(), first.violations.keys().next().cloned().unwrap_or_default()));
    }
    second
}

fn run_pass(ctx: &Ctx) -> Report {
    let mut rep = Report::new(ctx);
    let thorough = ctx.tier.thorough();
    rep.rule = "every message of the list (SendData 4 offsets x lengths {0,1,2,16,255} and every other length 0..=255 once, counts, hello/query/goodbye/pixels-complete x 5 addresses, 13 reports, 6 requests, 6 acks, 6 unknown frames incl. types 2 and 3) \
                x every reply line (13 reports, 6 acks, foreign report, other kinds, lower case, malformed of 8 sorts, empty) followed by a sentinel line; plus a hard error / Ok(0) / short accepts at every write call index, \
                a hard error / timeout / Ok(0) / interrupts at every read call index. Each run is one real process_message on a real SerialSignBus over a scripted port (virtual clock). Sequences: for 14 representative messages x 14, an exchange that fails (4 write-failure shapes, a hard read error at 4 call indices) followed by a clean exchange on the SAME bus, which must be perfectly normal. \
                Non-trivial = runs where a reply is due or a fault is injected; distinct by (message, line, scripts)"
        .into();
    rep.trusted_base = vec!["devices.rs ScriptPort".into(), "the codec is taken as given: Frame::from(message).to_bytes_with_newline() and Frame::from_bytes + Message::from are the references for what must be written and returned (C01-C05 decide whether they are right)".into(), "the sleep seam (only to avoid real waiting)".into()];
    let msgs = messages(ctx.seed);
    let reps = replies();
    // jobs: (msg idx, reply idx, rscript, wscript, at_end)
    let mut jobs: Vec<(usize, usize, Vec<RAns>, Vec<WAns>, RAns)> = vec![];
    for mi in 0..msgs.len() {
        for ri in 0..reps.len() {
            jobs.push((mi, ri, vec![], vec![], RAns::Eof));
        }
        // timeout instead of a reply
        let empty = reps.len() - 1;
        jobs.push((mi, empty, vec![], vec![], RAns::Fail(io::ErrorKind::TimedOut)));
        // write faults and short writes at every call index
        let wire_len = ref_wire(&msgs[mi]).len();
        for k in [usize::MAX, 1, 4] {
            let calls = if k == usize::MAX { 1 } else { ((wire_len + k - 1) / k).min(if thorough { 600 } else { 12 }) };
            jobs.push((mi, 0, vec![], vec![WAns::Accept(k); calls + 1], RAns::Eof));
            for j in 0..=calls.min(if thorough { 40 } else { 6 }) {
                for a in [WAns::Fail(io::ErrorKind::Other), WAns::Fail(io::ErrorKind::TimedOut), WAns::Zero, WAns::Interrupted] {
                    let mut s = vec![WAns::Accept(k); j];
                    s.push(a);
                    jobs.push((mi, 0, vec![], s, RAns::Eof));
                }
            }
        }
        // read faults at every call index of the reply line (for all messages: those without a reply must not read at all)
        let line_len = reps[0].1.len();
        for j in 0..=line_len {
            for a in [RAns::Fail(io::ErrorKind::Other), RAns::Fail(io::ErrorKind::TimedOut), RAns::Eof, RAns::Interrupted] {
                let mut s = vec![RAns::Deliver(usize::MAX); j];
                s.push(a.clone());
                jobs.push((mi, 0, s, vec![], RAns::Eof));
                if thorough {
                    let mut s = vec![RAns::Deliver(1); j];
                    s.push(RAns::Interrupted);
                    s.push(a);
                    jobs.push((mi, ri_of(&reps, "ack ReceivePixels"), s, vec![], RAns::Eof));
                }
            }
        }
    }
    let accs = par_range(jobs.len() as u64, 64, Acc::default, |acc, i| {
        let (mi, ri, ref rs, ref ws, ref at_end) = jobs[i as usize];
        acc.evals += 1;
        let sentinel = !reps[ri].1.is_empty();
        let (outcome, vs) = check_exchange(&msgs[mi], &reps[ri].1, sentinel, rs, ws, at_end);
        acc.outcomes.add(&outcome);
        if reply_due(&msgs[mi]) || !rs.is_empty() || !ws.is_empty() {
            acc.nontrivial_fp.push(i);
        }
        for (clause, class, detail) in vs {
            acc.violation(ID, Violation::new(clause, class, detail, case_json(&msgs[mi], &reps[ri].1, sentinel, rs, ws, at_end), ((rs.len() + ws.len()) as u64) << 32 | i));
        }
    });
    let mut all = Acc::default();
    for a in accs {
        all.merge(ID, a);
    }
    // sequences: a failed exchange followed by a clean one on the same bus
    let reps_idx: Vec<usize> = {
        let mut seen = std::collections::BTreeSet::new();
        let mut v = vec![];
        for (i, m) in msgs.iter().enumerate() {
            let k = match m {
                Message::SendData(_, d) => format!("SendData{}", match d.get().len() { 0 => 0, 1 => 1, 2..=16 => 2, _ => 3 }),
                other => kind_name(other).to_string(),
            };
            if seen.insert(k) && v.len() < 14 {
                v.push(i);
            }
        }
        v
    };
    let wfaults: Vec<Vec<WAns>> = vec![vec![WAns::Fail(io::ErrorKind::Other)], vec![WAns::Zero], vec![WAns::Accept(3), WAns::Fail(io::ErrorKind::BrokenPipe)], vec![WAns::Accept(5), WAns::Interrupted, WAns::Zero]];
    let ack_line = ref_encode(3, 5, &[0x91], true);
    let mut sjobs: Vec<(usize, Option<usize>, Option<usize>, usize)> = vec![];
    for &i1 in &reps_idx {
        for &i2 in &reps_idx {
            for w in 0..wfaults.len() {
                sjobs.push((i1, Some(w), None, i2));
            }
            if reply_due(&msgs[i1]) {
                for j in [0usize, 1, 2, 5, 12, 14] {
                    sjobs.push((i1, None, Some(j), i2));
                }
            }
        }
    }
    let accs = par_range(sjobs.len() as u64, 32, Acc::default, |acc, i| {
        let (i1, w, rf, i2) = sjobs[i as usize];
        acc.evals += 1;
        let wf: Vec<WAns> = w.map(|k| wfaults[k].clone()).unwrap_or_default();
        let (outcome, vs) = check_after_failure(&msgs[i1], &wf, rf, &msgs[i2], &ack_line);
        acc.outcomes.add(&format!("sequence:{}", outcome));
        acc.nontrivial_fp.push((1u64 << 40) | i);
        for (clause, class, detail) in vs {
            acc.violation(ID, Violation::new(clause, class, detail, json!({"kind": "sequence", "m1": msg_json(&msgs[i1]), "write_answers": wf.iter().map(wans_str).collect::<Vec<_>>(), "read_error_at": rf, "m2": msg_json(&msgs[i2]), "line2": hex(&ack_line)}), (1u64 << 44) | i));
        }
    });
    for a in accs {
        all.merge(ID, a);
    }
    all.samples.push(json!({"kind": "sequence", "first": "SendData whose write fails after 3 bytes", "then": "Hello on the same bus", "judged": "the port receives exactly Hello's frame and the reply is read normally"}));
    all.samples.push(case_json(&msgs[25], &reps[3].1, true, &[], &[], &RAns::Eof));
    all.samples.push(case_json(&msgs[0], &reps[0].1, true, &[], &[WAns::Accept(4), WAns::Zero], &RAns::Eof));
    all.samples.push(case_json(&msgs[24], &reps[reps.len() - 1].1, true, &[], &[], &RAns::Fail(io::ErrorKind::TimedOut)));
    let nt = rep.absorb(all);
    rep.states = nt;
    rep.transitions = rep.evaluations;
    rep.set("messages", json!(msgs.len()));
    rep.set("reply_lines", json!(reps.len()));
    let o = rep.outcomes.clone();
    rep.guard("outcomes-all-seen", ["reply", "no-reply-due", "write-failed", "read-failed"].iter().all(|k| o.get(k) > 0) && o.0.keys().any(|k| k.starts_with("undecodable")) || !rep.violations.is_empty(), format!("{:?}", o.0));
    rep
}

fn ri_of(reps: &[(String, Vec<u8>)], name: &str) -> usize {
    reps.iter().position(|r| r.0 == name).unwrap_or(0)
}

pub fn replay(_ctx: &Ctx, case: &Value) -> Result<Vec<Violation>, String> {
    crate::util::ISOLATE_CASES.store(true, std::sync::atomic::Ordering::Relaxed);
    if case["kind"].as_str() == Some("sequence") {
        let ws: Vec<WAns> = case["write_answers"].as_array().ok_or("write_answers")?.iter().map(|x| wans_from(x.as_str().unwrap_or("A0"))).collect();
        let (_, vs) = check_after_failure(&msg_from_json(&case["m1"]), &ws, case["read_error_at"].as_u64().map(|x| x as usize), &msg_from_json(&case["m2"]), &unhex(case["line2"].as_str().ok_or("line2")?));
        return Ok(vs.into_iter().map(|(c, k, d)| Violation::new(c, k, d, case.clone(), 0)).collect());
    }
    if case["kind"].as_str() != Some("exchange") {
        return Err("unknown case kind".into());
    }
    let m = msg_from_json(&case["message"]);
    let line = unhex(case["line"].as_str().ok_or("line")?);
    let rs: Vec<RAns> = case["read_answers"].as_array().ok_or("read_answers")?.iter().map(|x| rans_from(x.as_str().unwrap_or("D0"))).collect();
    let ws: Vec<WAns> = case["write_answers"].as_array().ok_or("write_answers")?.iter().map(|x| wans_from(x.as_str().unwrap_or("A0"))).collect();
    let at_end = rans_from(case["at_end"].as_str().unwrap_or("E"));
    let (_, vs) = check_exchange(&m, &line, case["sentinel"].as_bool().unwrap_or(true), &rs, &ws, &at_end);
    Ok(vs.into_iter().map(|(c, k, d)| Violation::new(c, k, d, case.clone(), 0)).collect())
}
