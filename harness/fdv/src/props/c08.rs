//! C08 — pages sent through the controller arrive bit-exact, from any prior sign state
//! (E2: breadth-first search over the real VirtualSignBus whose action alphabet is the UNION of raw bus
//! messages — they generate every prior state — and whole controller operations of the real `Sign`).

use std::cell::RefCell;
use std::rc::Rc;

use flipdot::{PageFlipStyle, Sign, SignError};
use flipdot_core::{Address, Data, Message, Offset, Page, PageId, SignBus, SignType, State};
use flipdot_testing::{VirtualSign, VirtualSignBus};
use serde_json::{json, Value};

use crate::bfs::{bfs, replay_path, Step, System};
use crate::props::c12::absorb_bfs;
use crate::refmodel::{msg_str, own, padded, SIGN_TYPES};
use crate::refsign::RefSign;
use crate::report::{Ctx, Report, Violation};
use crate::signsys::{ctl_for, custom_block, flip, hashed_size, sigma_cnt};
use crate::util::{catch, fill};

#[derive(Clone, Copy, PartialEq, Eq, Debug)]
pub enum CtlOp {
    Configure,
    ConfigureIfNeeded,
    SendPages(usize),
    Show,
    LoadNext,
    ShutDown,
}

pub enum Action {
    Raw(Message<'static>, bool), // (message, offered only in ConfigInProgress)
    Ctl(CtlOp),
}

pub struct C08Sys {
    pub type_idx: usize,
    pub automatic: bool,
    pub own: u16,
    pub bystander: Option<u16>,
    pub actions: Vec<Action>,
    pub lists: Vec<Vec<Page<'static>>>,
    pub max_buf: usize,
    pub max_count: u32,
}

#[derive(Clone, PartialEq, Eq, Hash, Debug)]
pub struct C08State {
    pub bus: VirtualSignBus<'static>,
    pub shadow: RefSign,
    /// shadow of the bystander (bounds only)
    pub by_shadow: Option<RefSign>,
    /// the controller configured this sign and nothing else has talked to it since
    pub set_up: bool,
    /// index of the page list a judged-successful send_pages loaded since
    pub loaded: Option<usize>,
}

pub fn page_lists(t: SignType, seed: u64) -> Vec<Vec<Page<'static>>> {
    let (w, h) = t.dimensions();
    let blank = Page::new(PageId(0), w, h);
    let mut on = Page::new(PageId(1), w, h);
    on.set_all_pixels(true);
    let mut corners = Page::new(PageId(255), w, h);
    for (x, y) in [(0, 0), (w - 1, 0), (0, h - 1), (w - 1, h - 1), (w / 2, h / 2)] {
        corners.set_pixel(x, y, true);
    }
    let mut pat = Page::new(PageId(7), w, h);
    let f = fill((w * h) as usize, 3, seed);
    for x in 0..w {
        for y in 0..h {
            pat.set_pixel(x, y, f[(x * h + y) as usize] % 3 == 0);
        }
    }
    // the last list repeats a page id (non-adjacent, different contents) and repeats a whole page (adjacent)
    let mut corners1 = corners.clone();
    corners1 = Page::from_bytes(w, h, { let mut b = corners1.as_bytes().to_vec(); b[0] = 1; b }).unwrap();
    vec![vec![], vec![pat.clone()], vec![blank.clone(), on.clone()], vec![on, pat, corners1, blank.clone(), blank, corners]]
}

pub fn make_sys(type_idx: usize, automatic: bool, own_addr: u16, bystander: Option<u16>, rich: bool, seed: u64) -> C08Sys {
    let t = SIGN_TYPES[type_idx].0;
    let other = SIGN_TYPES[(type_idx + 1) % 11].0;
    let (w, h) = t.dimensions();
    let pad = padded(w as u64, h as u64) as usize;
    let n = (pad / 16) as u16;
    let mut actions: Vec<Action> = vec![];
    for m in ctl_for(own_addr, false) {
        actions.push(Action::Raw(m, false));
    }
    for m in ctl_for(own_addr ^ 0x0004, true).into_iter().take(3) {
        actions.push(Action::Raw(m, false)); // a foreign address nobody has
    }
    let mut counts = vec![0u16, 1, n - 1, n, n + 1];
    counts.sort();
    counts.dedup();
    for m in sigma_cnt(&counts) {
        actions.push(Action::Raw(m, false));
    }
    let sd = |off: u16, d: Vec<u8>| Message::SendData(Offset(off), Data::try_new(d).unwrap());
    actions.push(Action::Raw(sd(0, t.to_bytes().to_vec()), true));
    actions.push(Action::Raw(sd(0, other.to_bytes().to_vec()), true));
    actions.push(Action::Raw(sd(0, custom_block(12, 8, 0xEE)), true)); // unsupported (family,id), tiny size
    actions.push(Action::Raw(sd(0, { let mut b = custom_block(12, 8, 0xEE); b[0] = 0x05; b }), true)); // invalid family
    for off in [0u16, 16, 32] {
        // uniform content: the buffer stays a function of its length (page contents are the controller's business here)
        actions.push(Action::Raw(sd(off, vec![0x11; 16]), false));
    }
    if rich {
        actions.push(Action::Raw(sd(16, vec![0x11; 15]), false));
        actions.push(Action::Raw(sd(16, vec![0x11; 1]), false));
    }
    if let Some(b) = bystander {
        // the bystander is driven through its configuration states and reset, but never into a pixel transfer of its
        // own (that product is C14's business and multiplies the space by the bystander's buffer contents)
        for m in ctl_for(b, true) {
            if !matches!(m, Message::RequestOperation(_, flipdot_core::Operation::ReceivePixels)) {
                actions.push(Action::Raw(m, false));
            }
        }
    }
    for op in [CtlOp::Configure, CtlOp::ConfigureIfNeeded, CtlOp::SendPages(0), CtlOp::SendPages(1), CtlOp::SendPages(2), CtlOp::SendPages(3), CtlOp::Show, CtlOp::LoadNext, CtlOp::ShutDown] {
        actions.push(Action::Ctl(op));
    }
    C08Sys { type_idx, automatic, own: own_addr, bystander, actions, lists: page_lists(t, seed), max_buf: pad + 16, max_count: n as u32 + 1 }
}

fn ready(s: State) -> bool {
    matches!(s, State::ConfigReceived | State::ShowingPages | State::PageLoaded | State::PageShowInProgress | State::PageShown | State::PageLoadInProgress)
}

/// States in which a sign accepts a pixel transfer: what "no configuration needed" can soundly mean. The
/// controller's own list (`ready`) is a subset; one that also counts 'pixels failed' is as good (the statement
/// only promises that sending pages afterwards succeeds, which the search checks from the resulting state).
fn accepts_pixels(s: State) -> bool {
    ready(s) || s == State::PixelsFailed
}

fn pages_eq(sign: &VirtualSign<'_>, want: &[Page<'static>]) -> bool {
    sign.pages().len() == want.len() && sign.pages().iter().zip(want).all(|(a, b)| a.width() == b.width() && a.height() == b.height() && a.as_bytes() == b.as_bytes())
}

impl C08Sys {
    fn typ(&self) -> SignType {
        SIGN_TYPES[self.type_idx].0
    }
    fn run_ctl(&self, bus: &VirtualSignBus<'static>, op: CtlOp) -> Result<(VirtualSignBus<'static>, Result<Option<PageFlipStyle>, String>), crate::util::Panicked> {
        let rc = Rc::new(RefCell::new(bus.clone()));
        let dynbus: Rc<RefCell<dyn SignBus>> = rc.clone();
        let typ = self.typ();
        let own_addr = self.own;
        let lists = &self.lists;
        let r = catch(move || {
            let sign = Sign::new(dynbus, Address(own_addr), typ);
            let r: Result<Option<PageFlipStyle>, SignError> = match op {
                CtlOp::Configure => sign.configure().map(|_| None),
                CtlOp::ConfigureIfNeeded => sign.configure_if_needed().map(|_| None),
                CtlOp::SendPages(i) => sign.send_pages(lists[i].iter()).map(Some),
                CtlOp::Show => sign.show_loaded_page().map(|_| None),
                CtlOp::LoadNext => sign.load_next_page().map(|_| None),
                CtlOp::ShutDown => sign.shut_down().map(|_| None),
            };
            r.map_err(|e| format!("{} ({:?})", e, e))
        })?;
        let after = rc.borrow().clone();
        Ok((after, r))
    }
}

impl System for C08Sys {
    type State = C08State;
    fn name(&self) -> String {
        format!("c08/{:?}/{}/own-{:04X}{}", self.typ(), if self.automatic { "automatic" } else { "manual" }, self.own, self.bystander.map(|b| format!("/bystander-{:04X}", b)).unwrap_or_default())
    }
    fn initial(&self) -> C08State {
        let mut signs = vec![VirtualSign::new(Address(self.own), flip(self.automatic))];
        if let Some(b) = self.bystander {
            signs.insert(0, VirtualSign::new(Address(b), flip(!self.automatic)));
        }
        C08State { bus: VirtualSignBus::new(signs), shadow: RefSign::new(self.own, self.automatic), by_shadow: self.bystander.map(|b| RefSign::new(b, !self.automatic)), set_up: false, loaded: None }
    }
    fn n_actions(&self) -> usize {
        self.actions.len()
    }
    fn enabled(&self, s: &C08State, a: usize) -> bool {
        match &self.actions[a] {
            Action::Raw(_, true) => self.own_sign(&s.bus).state() == State::ConfigInProgress,
            _ => true,
        }
    }
    fn within_bounds(&self, s: &C08State) -> bool {
        s.by_shadow.as_ref().map(|b| b.count <= 2 && b.buf.len() <= 32).unwrap_or(true) && s.shadow.buf.len() <= self.max_buf && s.shadow.count <= self.max_count && self.own_sign(&s.bus).pages().len() <= 6 && hashed_size(self.own_sign(&s.bus)) <= 512 + 8 * (self.max_buf as u64 + 64)
    }
    fn within_bounds_new(&self, s: &C08State) -> bool {
        crate::signsys::hidden_chunk_counter(self.own_sign(&s.bus)).map(|c| c <= self.max_count as u64 + 2).unwrap_or(true)
            && (self.bystander.is_none() || crate::signsys::hidden_chunk_counter(s.bus.sign(0)).map(|c| c <= 4).unwrap_or(true))
    }
    fn action_json(&self, a: usize) -> Value {
        match &self.actions[a] {
            Action::Raw(m, _) => json!(format!("raw {}", msg_str(m))),
            Action::Ctl(op) => json!(format!("controller {:?}", op)),
        }
    }
    fn config_json(&self) -> Value {
        json!({"system": "c08", "type_index": self.type_idx, "automatic": self.automatic, "own": self.own, "bystander": self.bystander, "rich": self.actions.iter().any(|a| matches!(a, Action::Raw(Message::SendData(_, d), _) if d.get().len() == 15))})
    }
    fn step(&self, s: &C08State, a: usize) -> Step<C08State> {
        match &self.actions[a] {
            Action::Raw(m, _) => {
                let mut bus = s.bus.clone();
                let mut shadow = s.shadow.clone();
                let r = catch(|| bus.process_message(m.clone()).map(|o| o.map(|x| own(&x))).map_err(|e| e.to_string()));
                match r {
                    Err(_) | Ok(Err(_)) => Step { next: None, violations: vec![], tags: 0, outcome: "raw-panic-or-error(C12)" },
                    Ok(Ok(_)) => {
                        let (_, open) = shadow.step(m);
                        let sg = self.own_sign(&bus);
                        shadow.adopt(open, sg.state(), sg.pages().len());
                        let mut by_shadow = s.by_shadow.clone();
                        if let Some(b) = by_shadow.as_mut() {
                            let (_, o) = b.step(m);
                            b.adopt(o, bus.sign(0).state(), bus.sign(0).pages().len());
                            b.state = bus.sign(0).state(); // bounds only: never let the shadow's state drift from the real one
                        }
                        shadow.state = self.own_sign(&bus).state();
                        let touches_own = !matches!(crate::ctlsys::addr_of(m), Some(x) if x != self.own);
                        let (set_up, loaded) = if touches_own { (false, None) } else { (s.set_up, s.loaded) };
                        Step { next: Some(C08State { bus, shadow, by_shadow, set_up, loaded }), violations: vec![], tags: 1 << crate::signsys::state_index(self.own_sign(&s.bus).state()), outcome: "raw" }
                    }
                }
            }
            Action::Ctl(op) => {
                let prior = self.own_sign(&s.bus).clone();
                let t = self.typ();
                let mut viol: Vec<(String, String, String)> = vec![];
                let ctx = format!("{:?} on a {:?} sign ({}) left in state {:?} (type {:?}, {} page(s){})", op, t, if self.automatic { "automatic" } else { "manual" }, prior.state(), prior.sign_type(), prior.pages().len(), if s.set_up { ", set up by the controller" } else { "" });
                let (bus, res) = match self.run_ctl(&s.bus, *op) {
                    Err(p) => {
                        viol.push(("no-panic".into(), p.class(), format!("{} panicked: {} at {}", ctx, p.message, p.location)));
                        return Step { next: None, violations: viol, tags: 0, outcome: "ctl-panic" };
                    }
                    Ok(x) => x,
                };
                let sg = self.own_sign(&bus).clone();
                let prior_class = format!("{:?}", prior.state());
                let mut set_up = s.set_up;
                let mut loaded = s.loaded;
                let mut tags = 0u64;
                let outcome: &'static str;
                // shadow: rebuild from the observable result (controller traffic ends in a quiescent state with an empty buffer)
                let mut shadow = RefSign::new(self.own, self.automatic);
                shadow.state = sg.state();
                shadow.typ = sg.sign_type();
                if let Some(tt) = sg.sign_type() {
                    let (w, h) = tt.dimensions();
                    shadow.w = w;
                    shadow.h = h;
                }
                match op {
                    CtlOp::Configure => {
                        outcome = "configure";
                        match &res {
                            Err(e) => viol.push(("configure-succeeds".into(), format!("from-{}", prior_class), format!("{}: failed with {}", ctx, e))),
                            Ok(_) => {
                                if sg.state() != State::ConfigReceived || sg.sign_type() != Some(t) || !sg.pages().is_empty() {
                                    let what = if !sg.pages().is_empty() { "pages-not-empty" } else if sg.sign_type() != Some(t) { "wrong-type" } else { "wrong-state" };
                                    viol.push(("configure-clean-slate".into(), format!("{}:from-{}", what, prior_class), format!("{}: afterwards state {:?}, type {:?}, {} page(s)", ctx, sg.state(), sg.sign_type(), sg.pages().len())));
                                }
                            }
                        }
                        set_up = res.is_ok();
                        loaded = None;
                        tags |= 1 << 40;
                    }
                    CtlOp::ConfigureIfNeeded => {
                        outcome = "configure-if-needed";
                        let judged = !accepts_pixels(prior.state()) || prior.sign_type() == Some(t);
                        if judged {
                            match &res {
                                Err(e) => viol.push(("configure-if-needed-succeeds".into(), format!("from-{}", prior_class), format!("{}: failed with {}", ctx, e))),
                                Ok(_) => {
                                    let fresh = sg.state() == State::ConfigReceived && sg.sign_type() == Some(t) && sg.pages().is_empty();
                                    let kept = accepts_pixels(prior.state()) && prior.sign_type() == Some(t) && accepts_pixels(sg.state()) && sg.sign_type() == Some(t) && pages_eq(&sg, &prior.pages().iter().map(|p| Page::from_bytes(p.width(), p.height(), p.as_bytes().to_vec()).unwrap()).collect::<Vec<_>>());
                                    if !(fresh || kept) {
                                        viol.push(("configure-if-needed-result".into(), format!("from-{}", prior_class), format!("{}: afterwards state {:?}, type {:?}, {} page(s): neither unchanged-and-ready nor freshly configured", ctx, sg.state(), sg.sign_type(), sg.pages().len())));
                                    }
                                    if fresh {
                                        loaded = None;
                                    }
                                }
                            }
                            set_up = res.is_ok();
                            if !set_up {
                                loaded = None;
                            }
                            tags |= 1 << 41;
                        } else {
                            set_up = false;
                            loaded = None;
                            tags |= 1 << 42;
                        }
                    }
                    CtlOp::SendPages(i) => {
                        outcome = "send-pages";
                        if s.set_up {
                            tags |= 1 << 43;
                            match &res {
                                Err(e) => {
                                    viol.push(("send-pages-succeeds".into(), format!("{}-pages:from-{}", self.lists[*i].len().min(2), prior_class), format!("{}: failed with {}", ctx, e)));
                                    loaded = None;
                                    set_up = false;
                                }
                                Ok(style) => {
                                    let want_style = if self.automatic { PageFlipStyle::Automatic } else { PageFlipStyle::Manual };
                                    let want_state = if self.automatic { State::ShowingPages } else { State::PageLoaded };
                                    if !pages_eq(&sg, &self.lists[*i]) {
                                        let cls = if sg.pages().len() != self.lists[*i].len() { "page-count" } else { "page-bytes" };
                                        viol.push(("pages-bit-exact".into(), format!("{}:{}-pages:from-{}", cls, self.lists[*i].len().min(2), prior_class), format!("{}: the sign holds {} page(s) (ids {:?}), {} were sent (ids {:?}); contents {}", ctx, sg.pages().len(), sg.pages().iter().map(|p| p.id().0).collect::<Vec<_>>(), self.lists[*i].len(), self.lists[*i].iter().map(|p| p.id().0).collect::<Vec<_>>(), if sg.pages().len() == self.lists[*i].len() { "differ" } else { "n/a" })));
                                    }
                                    if sg.state() != want_state {
                                        viol.push(("state-after-send".into(), format!("{}-pages:{:?}", self.lists[*i].len().min(2), sg.state()), format!("{}: afterwards in {:?}, expected {:?}", ctx, sg.state(), want_state)));
                                    }
                                    if *style != Some(want_style) {
                                        viol.push(("flip-style-reported".into(), format!("{}-pages", self.lists[*i].len().min(2)), format!("{}: reported {:?}, the sign is {:?}", ctx, style, want_style)));
                                    }
                                    loaded = Some(*i);
                                }
                            }
                        } else {
                            loaded = None;
                        }
                    }
                    CtlOp::Show | CtlOp::LoadNext => {
                        outcome = "show-or-load";
                        if let (true, Some(li)) = (s.set_up, s.loaded) {
                            tags |= 1 << 44;
                            match &res {
                                Err(e) => viol.push(("show-load-succeed".into(), format!("{:?}:from-{}", op, prior_class), format!("{}: failed with {}", ctx, e))),
                                Ok(_) => {
                                    if self.automatic {
                                        if sg != prior {
                                            viol.push(("automatic-sign-unchanged".into(), format!("{:?}", op), format!("{}: the automatic sign changed (state {:?} -> {:?}, pages {} -> {})", ctx, prior.state(), sg.state(), prior.pages().len(), sg.pages().len())));
                                        }
                                    } else {
                                        let want = if *op == CtlOp::Show { State::PageShown } else { State::PageLoaded };
                                        if sg.state() != want {
                                            viol.push(("manual-sign-shown-loaded".into(), format!("{:?}:{:?}", op, sg.state()), format!("{}: afterwards in {:?}, expected {:?}", ctx, sg.state(), want)));
                                        }
                                        if !pages_eq(&sg, &self.lists[li]) {
                                            viol.push(("pages-kept-by-show-load".into(), format!("{:?}", op), format!("{}: pages changed", ctx)));
                                        }
                                    }
                                }
                            }
                            if res.is_err() {
                                loaded = None;
                                set_up = false;
                            }
                        }
                    }
                    CtlOp::ShutDown => {
                        outcome = "shut-down";
                        set_up = false;
                        loaded = None;
                    }
                }
                // bystander must be untouched by controller operations addressed to the own sign
                // (a bystander that is itself receiving legitimately consumes the unaddressed data/count messages: not judged)
                let bystander_receiving = self.bystander.is_some() && matches!(s.bus.sign(0).state(), State::ConfigInProgress | State::PixelsInProgress);
                if self.bystander.is_some() && !bystander_receiving && !crate::signsys::obs_equal(bus.sign(0), s.bus.sign(0)) {
                    viol.push(("bystander-untouched".into(), format!("{:?}", op), format!("{}: the other sign on the bus changed", ctx)));
                }
                if bus == s.bus {
                    shadow = s.shadow.clone(); // nothing happened on the bus: hidden buffers are as before
                }
                // keep stored pages in the shadow for the bounds
                shadow.pages = sg.pages().iter().map(|p| p.as_bytes().to_vec()).collect();
                shadow.page_dims = sg.pages().iter().map(|p| (p.width(), p.height())).collect();
                // bystander shadow: rebuilt from what is observable (its hidden counter restarts; only a bound)
                let by_shadow = s.by_shadow.as_ref().map(|old| {
                    if bus.sign(0) == s.bus.sign(0) {
                        old.clone()
                    } else {
                        let mut b = RefSign::new(old.addr, old.automatic);
                        b.state = bus.sign(0).state();
                        b.typ = bus.sign(0).sign_type();
                        b
                    }
                });
                let bad = !viol.is_empty();
                Step { next: if bad { None } else { Some(C08State { bus, shadow, by_shadow, set_up, loaded }) }, violations: viol, tags, outcome }
            }
        }
    }
}

impl C08Sys {
    fn own_sign<'b>(&self, bus: &'b VirtualSignBus<'static>) -> &'b VirtualSign<'static> {
        bus.sign(if self.bystander.is_some() { 1 } else { 0 })
    }
}

pub fn run(ctx: &Ctx) -> Report {
    let mut rep = Report::new(ctx);
    let thorough = ctx.tier.thorough();
    rep.rule = "E2: breadth-first search to a fixed point over the real VirtualSignBus with the UNION alphabet: raw bus messages (control messages for the own and an absent address, counts, the type's own block / another type's block / an unsupported block / an invalid block while configuring, 16-byte chunks at offsets 0/16/32) generate every prior state \
                (every protocol state, half-finished configuration, abandoned pixel transfer with any number of buffered chunks up to one page + 16 bytes, previous configuration as another or an unknown type, ready-to-reset); from EVERY such state each controller operation of the real Sign \
                (configure, configure_if_needed, send_pages of 4 page lists, show, load_next, shut_down) is executed and judged by a promise model that says only what the statement says. Chaining of operations comes from the search. distinct_nontrivial = distinct stored states other than the initial one"
        .into();
    rep.trusted_base = vec!["the promise model in c08.rs (flags set_up / loaded)".into(), "bfs.rs".into(), "refsign.rs only for size bounds".into()];
    rep.assumptions.push("earlier traffic's configuration blocks are either a supported type's exact block or carry an unsupported (family,id): then sign_type()==Some(T) implies the sign has T's size (C19 checks the lemma); configure_if_needed is judged only from priors that do not accept a pixel transfer or record T".into());
    let budget = ctx.clone();
    let deadline = move || budget.over_budget();
    let mut runs = vec![];
    let mut tags = 0u64;
    let addrs: Vec<u16> = if thorough { vec![3, 0, 0x7F, 0x100, 0xABCD, 0xFFFF] } else { vec![3, 0xFFFF] };
    for ti in 0..11 {
        for automatic in [false, true] {
            for &a in &addrs {
                if !thorough && a == 0xFFFF && ti % 3 != 0 {
                    continue;
                }
                let sys = make_sys(ti, automatic, a, None, thorough && a == 3, ctx.seed);
                let res = bfs(&sys, 2_000_000, &deadline);
                tags |= res.stats.tags;
                absorb_bfs(&mut rep, &sys.name(), &res.stats, &mut runs);
                for v in res.violations {
                    rep.violation(v);
                }
                if runs.len() <= 2 {
                    for s in res.sample_paths.into_iter().take(1) {
                        rep.sample(s);
                    }
                }
            }
        }
    }
    if thorough {
        for ti in [5usize, 2, 8, 6] {
            for automatic in [false, true] {
                let sys = make_sys(ti, automatic, 3, Some(9), false, ctx.seed);
                let res = bfs(&sys, 3_000_000, &deadline);
                tags |= res.stats.tags;
                absorb_bfs(&mut rep, &sys.name(), &res.stats, &mut runs);
                for v in res.violations {
                    rep.violation(v);
                }
            }
        }
    }
    // E5: second engine on two of the runs
    let mut xs = vec![];
    if rep.violations.is_empty() {
        for (ti, automatic) in [(5usize, false), (2usize, true)] {
            // the thorough tier explores address 3 with the richer chunk alphabet; compare like with like
            crate::xcheck::cross_check(&mut rep, &mut xs, &runs, make_sys(ti, automatic, 3, None, thorough, ctx.seed));
        }
    }
    rep.set("stateright_cross_check", Value::Array(xs));
    rep.set("bfs_runs", Value::Array(runs));
    let bad = !rep.violations.is_empty();
    let mut missing = vec![];
    for (i, s) in crate::refmodel::STATES.iter().enumerate() {
        if tags & (1 << i) == 0 {
            missing.push(format!("{:?}", s.0));
        }
    }
    rep.guard("controller-operations-offered-from-all-13-prior-protocol-states", missing.is_empty() || bad, format!("prior states never reached: {:?}", missing));
    rep.guard("judged-configure", tags & (1 << 40) != 0, "configure judged");
    rep.guard("judged-and-unjudged-configure-if-needed", tags & (1 << 41) != 0 && tags & (1 << 42) != 0 || bad, "configure_if_needed was judged from some priors and (by contract) not judged from others");
    rep.guard("judged-send-pages", tags & (1 << 43) != 0 || bad, "send_pages judged on a set-up sign");
    rep.guard("judged-show-load", tags & (1 << 44) != 0 || bad, "show/load_next judged on a loaded sign");
    rep.sample(json!({"prior": "configured as the next sign type, pixel transfer abandoned after exactly one page of THIS type's size was buffered", "then": ["controller Configure", "controller SendPages([pattern])"], "judged": "Ok, state ConfigReceived, no pages; then the sign holds exactly that page"}));
    rep
}

pub fn replay(ctx: &Ctx, case: &Value) -> Result<Vec<Violation>, String> {
    if case["kind"].as_str() != Some("path") {
        return Err("unknown case kind".into());
    }
    let sj = &case["system"];
    let sys = make_sys(sj["type_index"].as_u64().ok_or("type_index")? as usize, sj["automatic"].as_bool().unwrap_or(false), sj["own"].as_u64().ok_or("own")? as u16, sj["bystander"].as_u64().map(|b| b as u16), sj["rich"].as_bool().unwrap_or(false), ctx.seed);
    let path: Vec<usize> = case["actions"].as_array().ok_or("actions")?.iter().map(|x| x.as_u64().unwrap() as usize).collect();
    Ok(replay_path(&sys, &path)?.into_iter().map(|(c, k, d)| Violation::new(&c, k, d, case.clone(), 0)).collect())
}
