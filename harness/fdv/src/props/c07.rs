//! C07 — page bytes follow the sign's native layout for every size (E1).

use flipdot_core::{Page, PageError, PageId};
use serde_json::{json, Value};

use crate::refmodel::{bytes_per_col, data_end, padded, SIGN_TYPES};
use crate::report::{Acc, Ctx, Report, Violation};
use crate::util::{catch, par_range};

const ID: &str = "C07";

fn ref_blank(id: u8, w: u64, h: u64) -> Vec<u8> {
    let mut v = vec![id, 0x10, 0, 0];
    v.resize(data_end(w, h) as usize, 0);
    v.resize(padded(w, h) as usize, 0xFF);
    v
}

/// pixels to visit: all if the page is small, else a boundary/stride set
fn pixels(w: u32, h: u32, all: bool) -> Vec<(u32, u32)> {
    if w == 0 || h == 0 {
        return vec![];
    }
    if all {
        let mut v = Vec::with_capacity((w * h) as usize);
        for x in 0..w {
            for y in 0..h {
                v.push((x, y));
            }
        }
        return v;
    }
    let mut xs = vec![0, 1.min(w - 1), w / 2, w - 1];
    let mut ys = vec![0, 7.min(h - 1), 8.min(h - 1), h / 2, h - 1];
    xs.sort();
    xs.dedup();
    ys.sort();
    ys.dedup();
    let mut v = vec![];
    for &x in &xs {
        for &y in &ys {
            v.push((x, y));
        }
    }
    v
}

pub fn check_size(id: u8, w: u32, h: u32, all_pixels: bool, lengths: bool) -> (u64, Vec<(&'static str, String, String)>) {
    let mut evals = 0u64;
    let (wl, hl) = (w as u64, h as u64);
    let r = catch(|| {
        let mut out: Vec<(&'static str, String, String)> = vec![];
        let mut evals = 0u64;
        let want = ref_blank(id, wl, hl);
        let page = Page::new(PageId(id), w, h);
        evals += 1;
        if page.as_bytes() != &want[..] {
            let cls = if page.as_bytes().len() != want.len() { "length" } else { "content" };
            out.push(("new-page-layout", cls.into(), format!("Page::new({}, {}x{}) has {} bytes {:02X?}.., expected {} bytes", id, w, h, page.as_bytes().len(), &page.as_bytes()[..page.as_bytes().len().min(8)], want.len())));
            return (evals, out);
        }
        if page.id() != PageId(id) || page.width() != w || page.height() != h {
            out.push(("new-page-layout", "accessors".into(), format!("id/width/height of Page::new({}, {}x{}) are {:?}/{}/{}", id, w, h, page.id(), page.width(), page.height())));
        }
        // every pixel -> exactly one bit
        let mut p = page.clone();
        let bpc = bytes_per_col(hl) as usize;
        for (x, y) in pixels(w, h, all_pixels) {
            evals += 1;
            p.set_pixel(x, y, true);
            let idx = 4 + x as usize * bpc + (y / 8) as usize;
            let bit = 1u8 << (y % 8);
            let b = p.as_bytes();
            let ok = b.len() == want.len() && b[idx] == bit && b.iter().enumerate().all(|(i, &v)| i == idx || v == want[i]);
            if !ok {
                let cls = if bpc <= 2 { "bytes-per-column<=2" } else { "bytes-per-column>2" };
                out.push(("pixel-bit-position", cls.into(), format!("setting ({},{}) on a blank {}x{} page should set exactly bit {} of byte {}; differing bytes: {:?}", x, y, w, h, y % 8, idx, b.iter().enumerate().filter(|(i, v)| **v != want[*i]).map(|(i, v)| (i, *v)).take(4).collect::<Vec<_>>())));
                break;
            }
            if !p.get_pixel(x, y) {
                out.push(("pixel-bit-position", "readback".into(), format!("({},{}) on {}x{} reads false after being set", x, y, w, h)));
                break;
            }
            // asking for the state the pixel already has must change nothing (assign, not toggle)
            p.set_pixel(x, y, true);
            if p.as_bytes()[idx] != bit {
                out.push(("pixel-bit-position", "set-twice".into(), format!("setting ({},{}) on {}x{} a second time changed byte {} to {:02X}", x, y, w, h, idx, p.as_bytes()[idx])));
                break;
            }
            p.set_pixel(x, y, false);
            if p.as_bytes() != &want[..] {
                out.push(("pixel-bit-position", "clear".into(), format!("clearing ({},{}) on {}x{} does not restore the blank page", x, y, w, h)));
                break;
            }
            p.set_pixel(x, y, false);
            if p.as_bytes() != &want[..] {
                out.push(("pixel-bit-position", "clear-twice".into(), format!("clearing ({},{}) on {}x{} a second time changed the page", x, y, w, h)));
                break;
            }
        }
        // the same map against a background in which every pixel is on: clearing (x, y) must clear exactly its bit
        // (a byte-mate that is on must stay on), and setting it again must restore the background
        {
            let mut on_bytes = want.clone();
            for x in 0..w as usize {
                for yb in 0..bpc {
                    let rows = (h as usize).saturating_sub(yb * 8).min(8);
                    on_bytes[4 + x * bpc + yb] = if rows == 8 { 0xFF } else { ((1u16 << rows) - 1) as u8 };
                }
            }
            if let Ok(mut op) = Page::from_bytes(w, h, on_bytes.clone()) {
                for (x, y) in pixels(w, h, all_pixels && (w as u64 * h as u64) <= 4096) {
                    evals += 1;
                    op.set_pixel(x, y, false);
                    let idx = 4 + x as usize * bpc + (y / 8) as usize;
                    let bit = 1u8 << (y % 8);
                    let b = op.as_bytes();
                    if !(b.len() == on_bytes.len() && b[idx] == on_bytes[idx] & !bit && b.iter().enumerate().all(|(i, &v)| i == idx || v == on_bytes[i])) {
                        out.push(("pixel-bit-position", "clear-on-full-page".into(), format!("clearing ({},{}) on a {}x{} page with every pixel on should clear exactly bit {} of byte {}; differing bytes: {:?}", x, y, w, h, y % 8, idx, b.iter().enumerate().filter(|(i, v)| **v != on_bytes[*i]).map(|(i, v)| (i, *v)).take(4).collect::<Vec<_>>())));
                        break;
                    }
                    op.set_pixel(x, y, true);
                    if op.as_bytes() != &on_bytes[..] {
                        out.push(("pixel-bit-position", "set-on-full-page".into(), format!("setting ({},{}) again on a {}x{} page with every other pixel on does not restore it", x, y, w, h)));
                        break;
                    }
                }
            }
        }
        // the same pixel -> bit map on a page built over BORROWED blank bytes (copy-on-write path)
        if let Ok(mut bp) = Page::from_bytes(w, h, &want[..]) {
            for (x, y) in pixels(w, h, all_pixels && (w as u64 * h as u64) <= 4096) {
                evals += 1;
                bp.set_pixel(x, y, true);
                let idx = 4 + x as usize * bpc + (y / 8) as usize;
                let bit = 1u8 << (y % 8);
                let b = bp.as_bytes();
                if !(b.len() == want.len() && b[idx] == bit && b.iter().enumerate().all(|(i, &v)| i == idx || v == want[i])) {
                    out.push(("pixel-bit-position", "borrowed-page".into(), format!("setting ({},{}) on a blank {}x{} page built over borrowed bytes: {} bytes (expected {}), byte {} = {:02X}", x, y, w, h, b.len(), want.len(), idx, b.get(idx).copied().unwrap_or(0))));
                    break;
                }
                bp.set_pixel(x, y, false);
            }
        }
        // from_bytes over the page's own bytes, owned and borrowed
        evals += 2;
        match (Page::from_bytes(w, h, want.clone()), Page::from_bytes(w, h, &want[..])) {
            (Ok(a), Ok(b)) => {
                if a != page || b != page || a.as_bytes() != &want[..] || b.as_bytes() != &want[..] {
                    out.push(("from-bytes", "not-equal-to-producer".into(), format!("from_bytes({}x{}, own bytes) differs from the page that produced them", w, h)));
                }
            }
            (a, b) => out.push(("from-bytes", "rejects-own-bytes".into(), format!("from_bytes({}x{}, {} own bytes) failed: {:?} / {:?}", w, h, want.len(), a.err(), b.err()))),
        }
        if lengths {
            let pad = want.len();
            let mut cands: Vec<usize> = vec![0, 1, 15, 16];
            for d in 0..=34usize {
                if pad + d >= 17 {
                    cands.push(pad + d - 17);
                }
            }
            cands.sort();
            cands.dedup();
            for l in cands {
                evals += 1;
                let buf: Vec<u8> = (0..l).map(|j| (j * 7 + 3) as u8).collect();
                // the owned path must judge the length exactly like the borrowed one
                match Page::from_bytes(w, h, buf.clone()) {
                    Ok(pg) => {
                        if l != pad {
                            out.push(("from-bytes", "owned-accepts-wrong-length".into(), format!("from_bytes({}x{}) accepted an owned Vec of {} bytes, padded size is {}", w, h, l, pad)));
                        } else if pg.as_bytes() != &buf[..] {
                            out.push(("from-bytes", "owned-exposes-other-bytes".into(), format!("from_bytes({}x{}, owned) does not expose exactly the bytes given", w, h)));
                        }
                    }
                    Err(_) => {
                        if l == pad {
                            out.push(("from-bytes", "owned-rejects-right-length".into(), format!("from_bytes({}x{}) rejected an owned Vec of the padded size {}", w, h, l)));
                        }
                    }
                }
                match Page::from_bytes(w, h, &buf[..]) {
                    Ok(pg) => {
                        if l != pad {
                            out.push(("from-bytes", "accepts-wrong-length".into(), format!("from_bytes({}x{}) accepted {} bytes, padded size is {}", w, h, l, pad)));
                        } else if pg.as_bytes() != &buf[..] || pg.width() != w || pg.height() != h || pg.id() != PageId(buf[0]) {
                            out.push(("from-bytes", "exposes-other-bytes".into(), format!("from_bytes({}x{}) does not expose exactly the bytes given", w, h)));
                        }
                    }
                    Err(PageError::WrongPageLength { width, height, expected, actual }) => {
                        if l == pad {
                            out.push(("from-bytes", "rejects-right-length".into(), format!("from_bytes({}x{}) rejected {} bytes (expected field {})", w, h, l, expected)));
                        } else if width != w || height != h || expected != pad || actual != l {
                            out.push(("from-bytes", "error-fields".into(), format!("WrongPageLength{{{}x{}, expected {}, actual {}}} for {}x{} with {} bytes (padded size {})", width, height, expected, actual, w, h, l, pad)));
                        }
                    }
                    Err(e) => out.push(("from-bytes", "other-error".into(), format!("{:?}", e))),
                }
            }
        }
        (evals, out)
    });
    match r {
        Ok((e, out)) => {
            evals += e;
            (evals, out)
        }
        Err(p) => (evals + 1, vec![("no-panic", p.class(), format!("{}x{} id {}: panicked: {} at {}", w, h, id, p.message, p.location))]),
    }
}

/// Page::new for a SEQUENCE of sizes on one fresh thread (sizes chosen to share their padded length but not their
/// data length): every page must follow the layout as if it were the first one created.
pub fn check_new_sequence(sizes: Vec<(u8, u32, u32)>) -> Vec<(&'static str, String, String)> {
    crate::util::in_fresh_thread(move || {
        for (k, &(id, w, h)) in sizes.iter().enumerate() {
            let r = catch(|| Page::new(PageId(id), w, h).as_bytes().to_vec());
            let want = ref_blank(id, w as u64, h as u64);
            match r {
                Err(p) => return vec![("no-panic", p.class(), format!("Page::new({}x{}) panicked: {}", w, h, p.message))],
                Ok(b) if b != want => {
                    let clause = if k == 0 { "new-page-layout" } else { "history-independent" };
                    return vec![(clause, format!("step-{}", k.min(2)), format!("Page::new({}, {}x{}) as call #{} on one thread (after {:?}) differs from the layout at byte {:?}", id, w, h, k, &sizes[..k], b.iter().zip(want.iter()).position(|(x, y)| x != y)))];
                }
                _ => {}
            }
        }
        vec![]
    })
}

pub fn run(ctx: &Ctx) -> Report {
    let mut rep = Report::new(ctx);
    let thorough = ctx.tier.thorough();
    rep.rule = "every (id, width, height) of the listed boxes: Page::new bytes against the layout formula, every pixel set/read/cleared on a blank page against 'bit y%8 of byte 4+x*ceil(h/8)+y/8 and nothing else' \
                (so distinct pixels provably never share a bit), from_bytes for every candidate length in {0,1,15,16} U [pad-17,pad+17] and over the page's own bytes (owned and borrowed). \
                Non-trivial = sizes with at least one pixel; distinct by (id,w,h)"
        .into();
    rep.trusted_base = vec!["refmodel::{bytes_per_col,data_end,padded} (the statement's formula)".into()];
    let mut jobs: Vec<(u8, u32, u32, bool, bool)> = vec![];
    let (bw, bh) = if thorough { (40, 40) } else { (24, 33) };
    for w in 0..=bw {
        for h in 0..=bh {
            for id in [0u8, 1, 255] {
                jobs.push((id, w, h, true, id == 0));
            }
        }
    }
    let mut sizes12: Vec<(u32, u32)> = SIGN_TYPES.iter().map(|e| (e.3, e.4)).collect();
    sizes12.push((33, 33));
    for &(w, h) in &sizes12 {
        for id in 0..=255u32 {
            jobs.push((id as u8, w, h, id % 64 == 0, id % 64 == 0));
        }
    }
    for (w, h) in [(1000u32, 16u32), (300, 255), (4096, 128), (65535, 1), (1, 65535), (1, 16_777_217), (1, 16_777_313), (2, 16_777_217), (1, 33_554_433), (12, 8), (28, 7), (6, 16), (14, 12), (4, 17), (5, 17), (3, 32), (2, 64), (7, 100)] {
        let small = (w as u64) * (h as u64) <= 20_000;
        jobs.push((7, w, h, small || thorough && (w as u64) * (h as u64) <= 600_000, true));
    }
    let accs = par_range(jobs.len() as u64, 4, Acc::default, |acc, i| {
        let (id, w, h, allpx, lens) = jobs[i as usize];
        let (evals, vs) = check_size(id, w, h, allpx, lens);
        acc.evals += evals;
        acc.outcomes.add(if w == 0 || h == 0 { "no-pixels" } else if (h + 7) / 8 == 1 { "1-byte-columns" } else if (h + 7) / 8 == 2 { "2-byte-columns" } else { "3+-byte-columns" });
        if w > 0 && h > 0 {
            acc.nontrivial_fp.push(((id as u64) << 48) | ((w as u64) << 24) | h as u64);
        }
        for (clause, class, detail) in vs {
            acc.violation(ID, Violation::new(clause, class, detail, json!({"kind": "size", "id": id, "w": w, "h": h, "all_pixels": allpx, "lengths": lens}), ((w as u64 * h as u64) << 20) | i));
        }
    });
    let mut all = Acc::default();
    for a in accs {
        all.merge(ID, a);
    }
    // sequences: group the sizes of a box by padded length; all ordered pairs (and chains of three) inside a group
    let mut groups: std::collections::BTreeMap<u64, Vec<(u32, u32)>> = Default::default();
    for w in 1..=24u32 {
        for h in [1u32, 7, 8, 9, 12, 16, 17] {
            groups.entry(padded(w as u64, h as u64)).or_default().push((w, h));
        }
    }
    for &(w, h) in &[(90u32, 7u32), (85, 7), (40, 12), (30, 10), (28, 10), (96, 8), (92, 8), (160, 16), (158, 16)] {
        groups.entry(padded(w as u64, h as u64)).or_default().push((w, h));
    }
    let mut seqs: Vec<Vec<(u8, u32, u32)>> = vec![];
    for (_, g) in groups.iter() {
        for (i, a) in g.iter().enumerate() {
            for (j, b) in g.iter().enumerate() {
                if i != j && data_end(a.0 as u64, a.1 as u64) != data_end(b.0 as u64, b.1 as u64) && (i + j) % 3 != 2 {
                    seqs.push(vec![(1, a.0, a.1), (2, b.0, b.1)]);
                    if let Some(c) = g.get((j + 1) % g.len()) {
                        seqs.push(vec![(1, a.0, a.1), (2, b.0, b.1), (3, c.0, c.1)]);
                    }
                }
            }
        }
    }
    let accs = par_range(seqs.len() as u64, 8, Acc::default, |acc, i| {
        acc.evals += seqs[i as usize].len() as u64;
        acc.outcomes.add("new-sequence");
        for (clause, class, detail) in check_new_sequence(seqs[i as usize].clone()) {
            acc.violation(ID, Violation::new(clause, class, detail, json!({"kind": "new-sequence", "sizes": seqs[i as usize].iter().map(|s| json!([s.0, s.1, s.2])).collect::<Vec<_>>()}), (1u64 << 50) + i));
        }
    });
    for a in accs {
        all.merge(ID, a);
    }
    rep.set("page_new_sequences", json!(seqs.len()));
    all.samples.push(json!({"size": "30x10", "padded_bytes": padded(30, 10), "pixel (29,9)": {"byte": 4 + 29 * 2 + 1, "bit": 1}}));
    all.samples.push(json!({"size": "5x17 (3 bytes per column)", "padded_bytes": padded(5, 17), "pixel (1,16)": {"byte": 4 + 3 + 2, "bit": 0}}));
    let nt = rep.absorb(all);
    rep.states = nt;
    rep.transitions = rep.evaluations;
    rep.set("sizes_checked", json!(jobs.len()));
    for k in ["no-pixels", "1-byte-columns", "2-byte-columns", "3+-byte-columns"] {
        rep.guard(&format!("class-{}", k), rep.outcomes.get(k) > 0, format!("{} sizes", rep.outcomes.get(k)));
    }
    rep
}

pub fn replay(_ctx: &Ctx, case: &Value) -> Result<Vec<Violation>, String> {
    if case["kind"].as_str() == Some("new-sequence") {
        let sizes: Vec<(u8, u32, u32)> = case["sizes"].as_array().ok_or("sizes")?.iter().map(|s| (s[0].as_u64().unwrap() as u8, s[1].as_u64().unwrap() as u32, s[2].as_u64().unwrap() as u32)).collect();
        return Ok(check_new_sequence(sizes).into_iter().map(|(c, k, d)| Violation::new(c, k, d, case.clone(), 0)).collect());
    }
    if case["kind"].as_str() != Some("size") {
        return Err("unknown case kind".into());
    }
    let (_, vs) = check_size(case["id"].as_u64().ok_or("id")? as u8, case["w"].as_u64().ok_or("w")? as u32, case["h"].as_u64().ok_or("h")? as u32, case["all_pixels"].as_bool().unwrap_or(true), case["lengths"].as_bool().unwrap_or(true));
    Ok(vs.into_iter().map(|(c, k, d)| Violation::new(c, k, d, case.clone(), 0)).collect())
}
