//! C01 — frame codec round trip in the documented Intel-HEX shape (E1: bounded-exhaustive input enumeration).

use flipdot_core::{Address, Data, Frame, FrameError, MsgType};
use serde_json::{json, Value};

use crate::refmodel::ref_encode;
use crate::report::{Acc, Ctx, Report, Violation};
use crate::util::{catch, fill, fnv, fnv_mix, hex, par_range, show_bytes, unhex};

const ID: &str = "C01";

fn case_json(addr: u16, typ: u8, data: &[u8]) -> Value {
    json!({"kind": "frame", "addr": addr, "type": typ, "data": hex(data)})
}

/// All oracle clauses for one frame. Returns (clause, class, detail) list.
pub fn check_frame(addr: u16, typ: u8, data: &[u8]) -> Vec<(&'static str, String, String)> {
    let mut out = vec![];
    let r = catch(|| {
        let mut out: Vec<(&'static str, String, String)> = vec![];
        let owned = Frame::new(Address(addr), MsgType(typ), Data::try_new(data.to_vec()).expect("<=255"));
        let borrowed = Frame::new(Address(addr), MsgType(typ), Data::try_new(data).expect("<=255"));
        let want = ref_encode(addr, typ, data, false);
        let want_nl = ref_encode(addr, typ, data, true);
        let got = owned.to_bytes();
        let got_nl = owned.to_bytes_with_newline();
        if got != want {
            out.push(("encode-shape", "no-newline".into(), format!("to_bytes={} want={}", show_bytes(&got), show_bytes(&want))));
        }
        if got_nl != want_nl {
            out.push(("encode-shape", "newline".into(), format!("to_bytes_with_newline={} want={}", show_bytes(&got_nl), show_bytes(&want_nl))));
        }
        if borrowed.to_bytes() != got || borrowed.to_bytes_with_newline() != got_nl {
            out.push(("owned-vs-borrowed", "encode".into(), "borrowed data encodes differently from owned data".into()));
        }
        if owned != borrowed {
            out.push(("owned-vs-borrowed", "eq".into(), "frames over owned and borrowed data differ".into()));
        }
        // direct (encoder-independent) shape clauses on the produced bytes
        let body = &got[..];
        let mut shape_ok = !body.is_empty() && body[0] == b':' && (body.len() - 1) % 2 == 0 && body.len() == 11 + 2 * data.len();
        let mut sum: u32 = 0;
        if shape_ok {
            let mut i = 1;
            while i < body.len() {
                let hv = |c: u8| match c {
                    b'0'..=b'9' => Some(c - b'0'),
                    b'A'..=b'F' => Some(c - b'A' + 10),
                    _ => None,
                };
                match (hv(body[i]), hv(body[i + 1])) {
                    (Some(h), Some(l)) => sum += (h * 16 + l) as u32,
                    _ => {
                        shape_ok = false;
                        break;
                    }
                }
                i += 2;
            }
        }
        if !shape_ok {
            out.push(("encode-shape", "not-colon-uppercase-hex-pairs".into(), format!("to_bytes={}", show_bytes(&got))));
        } else if sum % 256 != 0 {
            out.push(("checksum-zero-sum", "sum".into(), format!("encoded bytes sum to {} mod 256 in {}", sum % 256, show_bytes(&got))));
        }
        if got_nl.len() != got.len() + 2 || &got_nl[..got.len()] != &got[..] || &got_nl[got.len()..] != b"\r\n" {
            out.push(("encode-shape", "crlf".into(), format!("newline encoding is not the plain one + CRLF: {}", show_bytes(&got_nl))));
        }
        for (name, enc) in [("decode-plain", &got), ("decode-newline", &got_nl)] {
            match Frame::from_bytes(enc) {
                Ok(f) => {
                    if f != owned || f.address() != Address(addr) || f.message_type() != MsgType(typ) || f.data().as_ref() != data {
                        out.push(("roundtrip", format!("{}-differs", name), format!("decoded {:?} from {}", f, show_bytes(enc))));
                    }
                }
                Err(e) => out.push(("roundtrip", format!("{}-err", name), format!("decode of own encoding {} failed: {:?}", show_bytes(enc), e))),
            }
        }
        out
    });
    match r {
        Ok(v) => out.extend(v),
        Err(p) => out.push(("no-panic", p.class(), format!("panicked: {} at {}", p.message, p.location))),
    }
    out
}

fn eval(acc: &mut Acc, addr: u16, typ: u8, data: &[u8], order: u64, nontrivial: bool) {
    acc.evals += 1;
    let vs = check_frame(addr, typ, data);
    if nontrivial {
        acc.nontrivial_fp.push(fnv_mix(fnv_mix(fnv(data), addr as u64), typ as u64 + 0x1000));
    }
    if vs.is_empty() {
        acc.outcomes.add(if data.is_empty() { "ok:empty-data" } else if data.len() <= 16 { "ok:short-data" } else { "ok:long-data" });
    }
    for (clause, class, detail) in vs {
        acc.outcomes.add(&format!("violation:{}", clause));
        acc.violation(ID, Violation::new(clause, class, detail, case_json(addr, typ, data), order));
    }
}

static A0: [u8; 0] = [];
static A1: [u8; 1] = [0x11];
static A2: [u8; 2] = [0x11, 0x22];
static A3: [u8; 3] = [0x11, 0x22, 0x33];
static A4: [u8; 4] = [0x11, 0x22, 0x33, 0x44];

/// Data::try_new for one length, owned and borrowed. Returns violations.
pub fn check_try_new(len: usize) -> Vec<(&'static str, String, String)> {
    let mut out = vec![];
    let buf = fill(len, 3, 7);
    let r = catch(|| {
        let mut out: Vec<(&'static str, String, String)> = vec![];
        for (name, res) in [("owned", Data::try_new(buf.clone())), ("borrowed", Data::try_new(&buf[..]))] {
            match res {
                Ok(d) => {
                    if len > 255 {
                        out.push(("data-limit", format!("{}-accepted-too-long", name), format!("Data::try_new accepted {} bytes", len)));
                    } else if d.get().as_ref() != &buf[..] {
                        out.push(("data-limit", format!("{}-content", name), "data content changed".into()));
                    }
                }
                Err(FrameError::DataTooLong { max, actual }) => {
                    if len <= 255 {
                        out.push(("data-limit", format!("{}-rejected-fitting", name), format!("Data::try_new rejected {} bytes", len)));
                    } else if max != 255 || actual != len {
                        out.push(("data-limit", format!("{}-error-fields", name), format!("DataTooLong{{max:{},actual:{}}} for len {}", max, actual, len)));
                    }
                }
                Err(e) => out.push(("data-limit", format!("{}-wrong-error", name), format!("{:?}", e))),
            }
        }
        out
    });
    match r {
        Ok(v) => out.extend(v),
        Err(p) => out.push(("no-panic", p.class(), format!("Data::try_new({} bytes) panicked: {}", len, p.message))),
    }
    out
}

/// Frames chosen to collide on everything a careless cache or scratch buffer could be keyed on: same length, address,
/// type and byte sum with different data; address bytes swapped; address/type swapped; long permuted data.
pub fn colliding_frames(seed: u64) -> Vec<(u16, u8, Vec<u8>)> {
    let long = fill(255, 9, seed);
    let mut rev = long.clone();
    rev.reverse();
    vec![
        (0x0010, 0, vec![1, 2, 4, 8]),
        (0x0010, 0, vec![8, 4, 2, 1]),
        (0x0010, 0, vec![2, 1, 8, 4]),
        (0x0010, 0, vec![15, 0, 0, 0]),
        (0x0102, 5, vec![7]),
        (0x0201, 5, vec![7]),
        (0x0001, 2, vec![]),
        (0x0002, 1, vec![]),
        (0x0100, 2, vec![]),
        (0x0000, 0, long),
        (0x0000, 0, rev),
        (0xFFFF, 0xFF, vec![0xFF; 16]),
    ]
}

/// Encodes/decodes a SEQUENCE of frames on one fresh thread; every step must behave as if it were the first.
/// Strings whose decode fails in each of the three ways; decoded (result ignored) before a frame is checked.
pub const POISON: [&[u8]; 4] = [b":01000302FF00\r\n", b":02000302FFFA", b":0100030gFF00", b":00007F02007F"];

pub fn check_frame_sequence(frames: Vec<(u16, u8, Vec<u8>)>) -> Vec<(&'static str, String, String)> {
    check_frame_sequence_after(None, frames)
}

pub fn check_frame_sequence_after(poison: Option<usize>, frames: Vec<(u16, u8, Vec<u8>)>) -> Vec<(&'static str, String, String)> {
    crate::util::in_fresh_thread(move || {
        if let Some(pi) = poison {
            let _ = catch(|| Frame::from_bytes(POISON[pi]).is_ok());
        }
        for (k, (a, t, d)) in frames.iter().enumerate() {
            let vs = check_frame(*a, *t, d);
            if let Some((clause, class, detail)) = vs.into_iter().next() {
                if k == 0 && poison.is_none() {
                    return vec![(clause, class, detail)];
                }
                return vec![("history-independent", format!("step-{}{}:{}", k.min(2), if poison.is_some() { "-after-failed-decode" } else { "" }, clause), format!("step {} of a sequence on one thread (after {} earlier frame(s){}): {}", k, k, if poison.is_some() { " and a decode that failed" } else { "" }, detail))];
            }
        }
        vec![]
    })
}

/// "A data block longer than 255 bytes can never be placed in a frame": wire strings carrying n + 256k data bytes with
/// a length field of n and a consistent checksum must not decode into a frame.
pub fn check_oversized_wire(n: usize, extra: usize, newline: bool) -> Vec<(&'static str, String, String)> {
    let total = n + extra;
    let data: Vec<u8> = (0..total).map(|j| (j % 7) as u8).collect();
    let sum: u32 = (n as u32 % 256) + 0x12 + 0x34 + data.iter().map(|&b| b as u32).sum::<u32>();
    let mut fields: Vec<u8> = vec![(n % 256) as u8, 0x12, 0x34, 0x00];
    fields.extend_from_slice(&data);
    fields.push(((256 - (sum % 256)) % 256) as u8);
    let mut wire = vec![b':'];
    for f in fields {
        wire.extend_from_slice(format!("{:02X}", f).as_bytes());
    }
    if newline {
        wire.extend_from_slice(b"\r\n");
    }
    match catch(|| Frame::from_bytes(&wire).map(|f| f.data().len())) {
        Err(p) => vec![("no-panic", p.class(), format!("decoding {} data bytes panicked: {}", total, p.message))],
        Ok(Ok(len)) => vec![("data-limit", format!("frame-holds-{}-bytes", if len > 255 { ">255" } else { "<=255" }), format!("a wire string declaring {} and carrying {} data bytes decoded into a frame holding {} data bytes", n % 256, total, len))],
        Ok(Err(_)) => vec![],
    }
}

/// Probe for an INFALLIBLE conversion `T -> Data<'static>` that may or may not exist on the tree under test (autoref
/// specialisation: the first impl is chosen when `T: Into<Data>` holds, the second otherwise). After seed C01-w7-1,
/// which replaced the five `From<&'static [u8; N]>` impls (N <= 4) by one const-generic impl without a length check.
struct IntoProbe<T>(T);
trait ViaInto {
    fn build(&self) -> Option<Data<'static>>;
}
impl<T: Clone + Into<Data<'static>>> ViaInto for IntoProbe<T> {
    fn build(&self) -> Option<Data<'static>> {
        Some(self.0.clone().into())
    }
}
trait NoConversion {
    fn build(&self) -> Option<Data<'static>> {
        None
    }
}
impl<T> NoConversion for &IntoProbe<T> {}

static B5: [u8; 5] = [9, 8, 7, 6, 5];
static B16: [u8; 16] = [0x3C; 16];
static B255: [u8; 255] = [0x11; 255];
static B256: [u8; 256] = [0x22; 256];
static B300: [u8; 300] = [0xA5; 300];
static B65536: [u8; 65536] = [0x01; 65536];

/// Whatever infallible conversions into `Data` exist for the listed source types: a block of at most 255 bytes must
/// come out intact and round-trip in a frame; a longer one must not come out at all (a panic is a refusal).
fn check_infallible_conversions() -> (u64, Vec<(&'static str, String, String)>) {
    let mut out = vec![];
    let mut existing = 0u64;
    macro_rules! probe {
        ($name:expr, $val:expr, $bytes:expr) => {{
            let bytes: &[u8] = $bytes;
            let r = catch(|| (&IntoProbe($val)).build());
            match r {
                Ok(None) => {}
                Ok(Some(d)) => {
                    existing += 1;
                    let len = d.get().len();
                    if len > 255 {
                        out.push(("data-limit", "infallible-conversion-too-long".to_string(), format!("{} of {} bytes converts into a Data holding {} bytes", $name, bytes.len(), len)));
                    } else if bytes.len() <= 255 && d.get().as_ref() != bytes {
                        out.push(("data-limit", "infallible-conversion-alters".to_string(), format!("{} of {} bytes converts into different data", $name, bytes.len())));
                    } else {
                        let frame = Frame::new(Address(0x8001), MsgType(0x01), d);
                        let ok = catch(|| Frame::from_bytes(&frame.to_bytes()).ok() == Some(frame.clone()) && Frame::from_bytes(&frame.to_bytes_with_newline()).ok() == Some(frame.clone()));
                        if ok != Ok(true) {
                            out.push(("round-trip", "infallible-conversion-frame".to_string(), format!("a frame around {} of {} bytes does not round-trip: {:?}", $name, bytes.len(), ok)));
                        }
                    }
                }
                Err(p) => {
                    if bytes.len() <= 255 {
                        existing += 1;
                        out.push(("no-panic", p.class(), format!("converting {} of {} bytes panicked: {}", $name, bytes.len(), p.message)));
                    }
                }
            }
        }};
    }
    probe!("&'static [u8; 5]", &B5, &B5);
    probe!("&'static [u8; 16]", &B16, &B16);
    probe!("&'static [u8; 255]", &B255, &B255);
    probe!("&'static [u8; 256]", &B256, &B256);
    probe!("&'static [u8; 300]", &B300, &B300);
    probe!("&'static [u8; 65536]", &B65536, &B65536);
    for src in [&B5[..], &B255[..], &B256[..], &B300[..], &B65536[..]] {
        probe!("&'static [u8]", src, src);
        probe!("Vec<u8>", src.to_vec(), src);
        probe!("Box<[u8]>", src.to_vec().into_boxed_slice(), src);
        probe!("Cow<'static, [u8]> (borrowed)", std::borrow::Cow::Borrowed(src), src);
        probe!("Cow<'static, [u8]> (owned)", std::borrow::Cow::<'static, [u8]>::Owned(src.to_vec()), src);
    }
    (existing, out)
}

pub fn check_from_array() -> Vec<(&'static str, String, String)> {
    let r = catch(|| {
        let ds: [(Data<'static>, &[u8]); 5] = [
            (Data::from(&A0), &A0),
            (Data::from(&A1), &A1),
            (Data::from(&A2), &A2),
            (Data::from(&A3), &A3),
            (Data::from(&A4), &A4),
        ];
        ds.iter().all(|(d, s)| d.get().as_ref() == *s)
    });
    let mut out = check_infallible_conversions().1;
    if r != Ok(true) {
        out.push(("data-limit", "from-array".into(), format!("From<&[u8;N]> wrong: {:?}", r)));
    }
    out
}

pub fn run(ctx: &Ctx) -> Report {
    let mut rep = Report::new(ctx);
    let thorough = ctx.tier.thorough();
    let seed = ctx.seed;
    rep.rule = "E1 enumeration of frames (addr,type,data): every element of each listed sub-domain once; every frame is non-trivial \
                (it is encoded twice, decoded twice, compared with the arithmetic reference encoder); distinct = distinct (addr,type,data) fingerprints across sub-domains"
        .into();
    rep.trusted_base = vec!["refmodel::ref_encode (arithmetic Intel-HEX encoder, 25 lines)".into()];
    let mut all = Acc::default();

    // (i) addresses x types x {[], [A5]}
    let types_i: Vec<u8> = if thorough { (0..=255).collect() } else { vec![0, 1, 2, 6, 0x7F, 0x80, 0xA5, 0xFF] };
    let n_i = 65536u64 * types_i.len() as u64 * 2;
    let accs = par_range(n_i, 4096, Acc::default, |acc, i| {
        let which = (i % 2) as usize;
        let t = types_i[((i / 2) % types_i.len() as u64) as usize];
        let a = (i / 2 / types_i.len() as u64) as u16;
        let d: &[u8] = if which == 0 { &[] } else { &[0xA5] };
        eval(acc, a, t, d, i, true);
    });
    for a in accs {
        all.merge(ID, a);
    }
    let mut sub = vec![json!({"domain": "(i) all 65536 addresses x types x {[],[A5]}", "types": types_i.len(), "frames": n_i})];
    if !thorough {
        // all types x 64 addresses
        let addrs: Vec<u16> = (0..64).map(|k| ((k * 1040 + 0x80) & 0xFFFF) as u16).collect();
        let n = 256 * 64 * 2u64;
        let accs = par_range(n, 1024, Acc::default, |acc, i| {
            let which = i % 2;
            let t = ((i / 2) % 256) as u8;
            let a = addrs[(i / 512) as usize];
            let d: &[u8] = if which == 0 { &[] } else { &[0xA5] };
            eval(acc, a, t, d, n_i + i, true);
        });
        for a in accs {
            all.merge(ID, a);
        }
        sub.push(json!({"domain": "(i') all 256 types x 64 addresses x {[],[A5]}", "frames": n}));
    }

    // (ii) every length x position x value
    let mut jobs: Vec<(usize, usize, u64)> = vec![]; // (n, p, background)
    for n in 1..=255usize {
        let ps: Vec<usize> = if thorough { (0..n).collect() } else { let mut v = vec![0, n / 2, n - 1]; v.dedup(); v };
        for p in ps {
            jobs.push((n, p, 0));
            if !thorough || p == 0 || p == n - 1 || p == n / 2 {
                jobs.push((n, p, 1));
            }
        }
    }
    let n_ii = jobs.len() as u64 * 256;
    let base_order = 1u64 << 40;
    let accs = par_range(n_ii, 256, Acc::default, |acc, i| {
        let (n, p, bg) = jobs[(i / 256) as usize];
        let v = (i % 256) as u8;
        let mut d = if bg == 0 { fill(n, 1, seed) } else { vec![0xFF; n] };
        d[p] = v;
        let addr = if bg == 0 { 0x1234 } else { 0xFFFF };
        let typ = if bg == 0 { 0 } else { 0xFF };
        eval(acc, addr, typ, &d, base_order + i, true);
    });
    for a in accs {
        all.merge(ID, a);
    }
    sub.push(json!({"domain": "(ii) every length 1..=255 x position x every byte value, fill and all-FF backgrounds", "jobs": jobs.len(), "frames": n_ii}));

    // (iii) 64 addresses x 16 types x boundary lengths
    let lens = [0usize, 1, 2, 3, 15, 16, 17, 127, 128, 254, 255];
    let n_iii = 64 * 16 * lens.len() as u64;
    let accs = par_range(n_iii, 16, Acc::default, |acc, i| {
        let l = lens[(i % lens.len() as u64) as usize];
        let t = (((i / lens.len() as u64) % 16) * 17) as u8;
        let a = (((i / lens.len() as u64 / 16) * 1040 + 0x81) & 0xFFFF) as u16;
        let d = fill(l, i, seed);
        eval(acc, a, t, &d, (2u64 << 40) + i, true);
    });
    for a in accs {
        all.merge(ID, a);
    }
    sub.push(json!({"domain": "(iii) 64 addresses x 16 types x lengths {0,1,2,3,15,16,17,127,128,254,255}", "frames": n_iii}));

    all.samples.push(json!({"frame": {"addr": 0xABCD, "type": 0x7F, "data": "A5"}, "wire": show_bytes(&ref_encode(0xABCD, 0x7F, &[0xA5], true))}));
    all.samples.push(json!({"frame": {"addr": 0x1234, "type": 0, "data_len": 255}, "wire_len": ref_encode(0x1234, 0, &fill(255, 1, seed), true).len()}));
    let n = rep.absorb(all);
    rep.states = n;
    rep.transitions = rep.evaluations;

    // (iv) Data::try_new limits and From<&[u8;N]>
    let mut lens: Vec<usize> = (0..=300).collect();
    lens.extend([511, 512, 65535, 65536, 70000]);
    let mut limit_cases = 0u64;
    for (k, &l) in lens.iter().enumerate() {
        limit_cases += 2;
        for (clause, class, detail) in check_try_new(l) {
            rep.violation(Violation::new(clause, class, detail, json!({"kind": "try_new", "len": l}), (3u64 << 40) + k as u64));
        }
    }
    for (k, &(n, extra)) in [(0usize, 256usize), (1, 256), (16, 256), (255, 256), (0, 512), (3, 768)].iter().enumerate() {
        for nl in [false, true] {
            limit_cases += 1;
            for (clause, class, detail) in check_oversized_wire(n, extra, nl) {
                rep.violation(Violation::new(clause, class, detail, json!({"kind": "oversized", "n": n, "extra": extra, "newline": nl}), (3u64 << 40) + 2000 + k as u64));
            }
        }
    }
    limit_cases += 5 + 31;
    rep.set("infallible_conversions_into_data_found_beyond_the_five_array_impls", json!(check_infallible_conversions().0));
    for (clause, class, detail) in check_from_array() {
        rep.violation(Violation::new(clause, class, detail, json!({"kind": "from_array"}), (3u64 << 40) + 1000));
    }
    // (v) call sequences: all ordered pairs and triples of the colliding frames, each on a fresh thread
    let cf = colliding_frames(seed);
    let n = cf.len() as u64;
    let nseq = n * n + n * n * n;
    let accs = par_range(nseq, 16, Acc::default, |acc, i| {
        let idx: Vec<usize> = if i < n * n { vec![(i / n) as usize, (i % n) as usize] } else { let j = i - n * n; vec![(j / (n * n)) as usize, ((j / n) % n) as usize, (j % n) as usize] };
        acc.evals += idx.len() as u64;
        let frames: Vec<(u16, u8, Vec<u8>)> = idx.iter().map(|&k| cf[k].clone()).collect();
        for (clause, class, detail) in check_frame_sequence(frames.clone()) {
            acc.violation(ID, Violation::new(clause, class, detail, json!({"kind": "sequence", "frames": frames.iter().map(|f| json!({"addr": f.0, "type": f.1, "data": hex(&f.2)})).collect::<Vec<_>>()}), (4u64 << 40) + i));
        }
    });
    let mut seq = Acc::default();
    for a in accs {
        seq.merge(ID, a);
    }
    // a decode that FAILS (bad checksum / length mismatch / malformed), then one or two frames
    for pi in 0..POISON.len() {
        for i in 0..cf.len() {
            for j in 0..=cf.len() {
                let mut frames = vec![cf[i].clone()];
                if j < cf.len() {
                    frames.push(cf[j].clone());
                }
                seq.evals += frames.len() as u64;
                for (clause, class, detail) in check_frame_sequence_after(Some(pi), frames.clone()) {
                    seq.violation(ID, Violation::new(clause, class, detail, json!({"kind": "sequence", "poison": pi, "frames": frames.iter().map(|f| json!({"addr": f.0, "type": f.1, "data": hex(&f.2)})).collect::<Vec<_>>()}), (5u64 << 40) + (pi * 1000 + i * 20 + j) as u64));
                }
            }
        }
    }
    let seq_evals = seq.evals;
    for (_, v) in std::mem::take(&mut seq.viol) {
        rep.violation(v);
    }
    rep.evaluations += seq_evals;
    rep.transitions += seq_evals;
    rep.set("call_sequences", json!({"colliding_frames": n, "sequences": nseq, "note": "each sequence runs on a fresh thread so that state carried between calls is reproducible"}));
    rep.evaluations += limit_cases;
    rep.transitions += limit_cases;
    rep.set("sub_domains", Value::Array(sub));
    rep.set("data_limit_lengths_checked", json!(lens.len()));
    rep.guard("frames-enumerated", rep.states > 100_000, format!("{} distinct frames", rep.states));
    rep.guard("all-ok-classes-seen", rep.outcomes.get("ok:empty-data") > 0 && rep.outcomes.get("ok:long-data") > 0 || !rep.violations.is_empty(), "empty and long data frames both exercised");
    rep.assumptions.push("joint variation of several data bytes is covered only by the fill/all-FF backgrounds (the codec never branches on data values; the checksum is a linear fold)".into());
    rep
}

pub fn replay(_ctx: &Ctx, case: &Value) -> Result<Vec<Violation>, String> {
    match case["kind"].as_str() {
        Some("frame") => {
            let addr = case["addr"].as_u64().ok_or("addr")? as u16;
            let typ = case["type"].as_u64().ok_or("type")? as u8;
            let data = unhex(case["data"].as_str().ok_or("data")?);
            Ok(check_frame(addr, typ, &data)
                .into_iter()
                .map(|(c, k, d)| Violation::new(c, k, d, case.clone(), 0))
                .collect())
        }
        Some("sequence") => {
            let frames: Vec<(u16, u8, Vec<u8>)> = case["frames"].as_array().ok_or("frames")?.iter().map(|f| (f["addr"].as_u64().unwrap() as u16, f["type"].as_u64().unwrap() as u8, unhex(f["data"].as_str().unwrap()))).collect();
            Ok(check_frame_sequence_after(case["poison"].as_u64().map(|x| x as usize), frames).into_iter().map(|(c, k, d)| Violation::new(c, k, d, case.clone(), 0)).collect())
        }
        Some("oversized") => Ok(check_oversized_wire(case["n"].as_u64().ok_or("n")? as usize, case["extra"].as_u64().ok_or("extra")? as usize, case["newline"].as_bool().unwrap_or(false)).into_iter().map(|(c, k, d)| Violation::new(c, k, d, case.clone(), 0)).collect()),
        Some("try_new") => {
            let l = case["len"].as_u64().ok_or("len")? as usize;
            Ok(check_try_new(l).into_iter().map(|(c, k, d)| Violation::new(c, k, d, case.clone(), 0)).collect())
        }
        Some("from_array") => Ok(check_from_array().into_iter().map(|(c, k, d)| Violation::new(c, k, d, case.clone(), 0)).collect()),
        _ => Err("unknown case kind".into()),
    }
}
