//! C10 / C11 — the controller against every possible sign reply (E3: complete reply-tree enumeration of the real
//! `Sign` operations against a scripted bus). C10 compares every leaf with the reference controller automaton;
//! C11 evaluates conversation invariants on the same leaves (shared enumeration, separate oracle).

use flipdot_core::{Page, PageId, SignType};
use serde_json::{json, Value};

use crate::ctlsys::*;
use crate::refmodel::{msg_str, SIGN_TYPES};
use crate::report::{Acc, Ctx, Report, Violation};
use crate::util::par_range;

#[derive(Clone, Copy, PartialEq, Eq, Debug)]
pub enum Mode {
    C10,
    C11,
}

pub struct Setup {
    pub typ: SignType,
    pub own: u16,
    pub foreign: u16,
    pub page_lists: Vec<Vec<Page<'static>>>,
    /// (id, operation, its reply script): performed on the same Sign before the operation under test
    pub prelude: Option<(usize, Op, Vec<Rep>)>,
}

pub const N_PRELUDES: usize = 5;

/// 1: send_pages([p]) ending 'showing pages'; 2: the same ending 'page loaded'; 3: configure; 4: show_loaded_page;
/// 5: send_pages([p]) whose receive request is not answered (the call fails).
pub fn with_prelude(mut su: Setup, id: usize) -> Setup {
    let coop = |op: Op, auto: bool| crate::ctlsys::cooperative_script(op, su.own, su.foreign, su.typ, &su.page_lists, auto);
    su.prelude = match id {
        1 => Some((1, Op::SendPages(1), coop(Op::SendPages(1), true))),
        2 => Some((2, Op::SendPages(1), coop(Op::SendPages(1), false))),
        3 => Some((3, Op::Configure, coop(Op::Configure, false))),
        4 => Some((4, Op::Show, coop(Op::Show, false))),
        5 => Some((5, Op::SendPages(1), vec![Rep::Silent])),
        _ => None,
    };
    su
}

fn arm_prelude(su: &Setup) {
    crate::ctlsys::set_prelude(su.prelude.as_ref().map(|(_, o, s)| (*o, s.clone())));
}

pub fn make_setup(type_idx: usize, own: u16, foreign: u16) -> Setup {
    let (t, _, _, w, h) = SIGN_TYPES[type_idx];
    let mut p = Page::new(PageId(1), w, h);
    p.set_pixel(0, 0, true);
    p.set_pixel(w - 1, h - 1, true);
    let mut q = Page::new(PageId(2), w, h);
    q.set_all_pixels(true);
    // a list long enough for 64+ chunks per attempt (a retry limit that grows with the amount sent)
    let per_page = (crate::refmodel::padded(w as u64, h as u64) / 16) as usize;
    let many: Vec<Page<'static>> = (0..(64 / per_page + 2)).map(|i| if i % 2 == 0 { p.clone() } else { q.clone() }).collect();
    Setup { typ: t, own, foreign, page_lists: vec![vec![], vec![p.clone()], vec![p, q], many], prelude: None }
}

pub fn ops() -> Vec<Op> {
    vec![Op::ShutDown, Op::Show, Op::LoadNext, Op::SendPages(0), Op::SendPages(1), Op::SendPages(2), Op::SendPages(3), Op::Configure, Op::ConfigureIfNeeded]
}

fn op_name(op: Op) -> String {
    match op {
        Op::SendPages(i) => format!("SendPages[{} page(s)]", i),
        o => format!("{:?}", o),
    }
}

fn case_json(su: &Setup, type_idx: usize, op: Op, script: &[usize]) -> Value {
    json!({"kind": "script", "type_index": type_idx, "sign_type": format!("{:?}", su.typ), "own": su.own, "foreign": su.foreign, "op": op_name(op), "op_code": op_code(op),
           "prelude": su.prelude.as_ref().map(|p| p.0).unwrap_or(0), "prelude_shown": su.prelude.as_ref().map(|p| format!("{} answered [{}]", op_name(p.1), p.2.iter().map(|r| rep_str(*r)).collect::<Vec<_>>().join(", "))),
           "script": script, "script_shown": script.iter().map(|&i| rep_str(rep_of(i))).collect::<Vec<_>>()})
}

fn op_code(op: Op) -> u64 {
    match op {
        Op::Configure => 0,
        Op::ConfigureIfNeeded => 1,
        Op::SendPages(i) => 10 + i as u64,
        Op::Show => 2,
        Op::LoadNext => 3,
        Op::ShutDown => 4,
    }
}
fn op_from(c: u64) -> Op {
    match c {
        0 => Op::Configure,
        1 => Op::ConfigureIfNeeded,
        2 => Op::Show,
        3 => Op::LoadNext,
        4 => Op::ShutDown,
        k => Op::SendPages((k - 10) as usize),
    }
}

/// All oracle clauses of `mode` for one complete (or horizon-cut) script.
pub fn check_script(mode: Mode, su: &Setup, op: Op, script_idx: &[usize], cut: bool) -> (Outcome, usize, Vec<(&'static str, String, String)>) {
    let script: Vec<Rep> = script_idx.iter().map(|&i| rep_of(i)).collect();
    let run = run_real(op, su.own, su.foreign, su.typ, &su.page_lists, &script);
    let mut out: Vec<(&'static str, String, String)> = vec![];
    let opn = op_name(op);
    if let Some(p) = &run.panic {
        out.push(("no-panic", p.class(), format!("{} with replies [{}] panicked: {}", opn, script.iter().map(|r| rep_str(*r)).collect::<Vec<_>>().join(", "), p.message)));
        return (run.outcome, run.sent.len(), out);
    }
    match mode {
        Mode::C10 => {
            let (want_sent, want_outcome, also_allowed) = ref_run(op, su.own, su.foreign, su.typ, &su.page_lists, &script);
            let shown = || script.iter().map(|r| rep_str(*r)).collect::<Vec<_>>().join(", ");
            // messages: compare the common prefix up to the shorter one, then lengths
            let n = run.sent.len().min(want_sent.len());
            if let Some(i) = (0..n).find(|&i| run.sent[i] != want_sent[i]) {
                out.push(("message-sequence", format!("{}:wrong-message-after-{}", opn, if i == 0 { "start".to_string() } else { rep_str(script[i - 1]).replace(|c: char| c.is_ascii_digit(), "") }), format!("{} with replies [{}]: message #{} is {} but the protocol prescribes {}", opn, shown(), i, msg_str(&run.sent[i]), msg_str(&want_sent[i]))));
            } else if run.sent.len() != want_sent.len() {
                let last = script.get(n.saturating_sub(1)).map(|r| rep_str(*r)).unwrap_or_default();
                let cls = if run.sent.len() > want_sent.len() { "continues-after" } else { "stops-early-after" };
                out.push(("message-sequence", format!("{}:{}-{}", opn, cls, last), format!("{} with replies [{}]: sent {} messages, the protocol prescribes {} (next: {:?})", opn, shown(), run.sent.len(), want_sent.len(), if run.sent.len() > want_sent.len() { msg_str(&run.sent[n]) } else { msg_str(&want_sent[n]) })));
            }
            if !cut && run.outcome != want_outcome && Some(&run.outcome) != also_allowed.as_ref() {
                out.push(("outcome", format!("{}:{}-instead-of-{}", opn, run.outcome.class(), want_outcome.class()), format!("{} with replies [{}]: returned {:?}, the protocol prescribes {:?}", opn, shown(), run.outcome, want_outcome)));
            }
        }
        Mode::C11 => {
            out.extend(invariants(op, su.own, su.foreign, &script, &run));
            if !cut {
                if let Some(alt) = foreign_to_unknown(&script) {
                    let run2 = run_real(op, su.own, su.foreign, su.typ, &su.page_lists, &alt);
                    // "never treated as its own": a foreign reply is either handled like an unrelated frame, or rejected on
                    // the spot (protocol error, nothing sent after it). In the second case the conversation up to that reply
                    // must still be the one with unrelated frames in place of the earlier foreign replies.
                    let n = run.sent.len();
                    let rejected_on_the_spot = run.outcome == Outcome::Protocol && n >= 1 && script.get(n - 1).map(crate::ctlsys::is_foreign).unwrap_or(false);
                    let same = if rejected_on_the_spot { run2.sent.len() >= n && run2.sent[..n] == run.sent[..] } else { run2.sent == run.sent && run2.outcome.class() == run.outcome.class() };
                    if !same {
                        out.push(("I5-foreign-reply-never-own", format!("{}:{}-vs-{}", opn, run.outcome.class(), run2.outcome.class()), format!("{} with replies [{}]: {} messages / {}, but with the foreign-address replies replaced by an unrelated frame {} messages / {}", opn, script.iter().map(|r| rep_str(*r)).collect::<Vec<_>>().join(", "), run.sent.len(), run.outcome.class(), run2.sent.len(), run2.outcome.class())));
                    }
                }
            }
        }
    }
    (run.outcome, run.sent.len(), out)
}

/// Depth-first enumeration of the complete reply tree below `prefix`.
pub static ABORT: std::sync::atomic::AtomicBool = std::sync::atomic::AtomicBool::new(false);
static DEADLINE: std::sync::OnceLock<(std::time::Instant, f64)> = std::sync::OnceLock::new();

fn explore(mode: Mode, id: &str, su: &Setup, ti: usize, op: Op, prefix: &mut Vec<usize>, horizon: usize, acc: &mut Acc, stats: &mut TreeStats, order_base: u64) {
    if ABORT.load(std::sync::atomic::Ordering::Relaxed) {
        stats.aborted = true;
        return;
    }
    if stats.runs % 64 == 0 {
        if let Some((t0, budget)) = DEADLINE.get() {
            if t0.elapsed().as_secs_f64() > *budget {
                ABORT.store(true, std::sync::atomic::Ordering::Relaxed);
            }
        }
    }
    let script: Vec<Rep> = prefix.iter().map(|&i| rep_of(i)).collect();
    // cheap starvation probe: run once; if starved, extend
    let run = run_real(op, su.own, su.foreign, su.typ, &su.page_lists, &script);
    stats.runs += 1;
    if run.outcome == Outcome::Starved && run.panic.is_none() {
        if prefix.len() >= horizon {
            stats.cut += 1;
            acc.evals += 1;
            let (_, _, vs) = check_script(mode, su, op, prefix, true);
            for (clause, class, detail) in vs {
                acc.violation(id, Violation::new(clause, class, detail, case_json(su, ti, op, prefix), order_base + ((prefix.len() as u64) << 32) + stats.runs));
            }
            return;
        }
        for s in 0..N_REP {
            prefix.push(s);
            explore(mode, id, su, ti, op, prefix, horizon, acc, stats, order_base);
            prefix.pop();
        }
        return;
    }
    // leaf
    stats.leaves += 1;
    acc.evals += 1;
    let (outcome, nsent, vs) = check_script(mode, su, op, prefix, false);
    acc.outcomes.add(&format!("{}:{}", op_name(op).split('[').next().unwrap(), outcome.class()));
    if nsent >= 2 {
        acc.nontrivial_fp.push(crate::util::fnv(&prefix.iter().map(|&x| x as u8).chain([op_code(op) as u8, ti as u8, (su.own & 0xFF) as u8, (su.own >> 8) as u8]).collect::<Vec<u8>>()));
    }
    stats.max_depth = stats.max_depth.max(prefix.len());
    for (clause, class, detail) in vs {
        acc.violation(id, Violation::new(clause, class, detail, case_json(su, ti, op, prefix), order_base + ((prefix.len() as u64) << 32) + stats.runs));
    }
}

#[derive(Default, Clone, Copy)]
pub struct TreeStats {
    pub runs: u64,
    pub leaves: u64,
    pub cut: u64,
    pub max_depth: usize,
    pub aborted: bool,
}

pub fn run_mode(ctx: &Ctx, mode: Mode) -> Report {
    let id: &str = if mode == Mode::C10 { "C10" } else { "C11" };
    let mut rep = Report::new(ctx);
    let thorough = ctx.tier.thorough();
    rep.rule = format!(
        "E3: the COMPLETE reply tree over a 47-symbol alphabet (13 state reports x own/foreign address, 6 acknowledgements x own/foreign, no reply, goodbye, unknown frame, and 6 bus failures: a custom error type, io::Error Other/TimedOut/Interrupted, FrameError::Io wrapping TimedOut/UnexpectedEof): for configure, configure_if_needed, \
         send_pages([], [p], [p,q]), show_loaded_page, load_next_page, shut_down every reply is offered at every step until the real operation returns (polling loops cut at the horizon; cut prefixes are still checked). \
         {} Non-trivial = leaves in which the controller sent at least two messages; distinct by (operation, sign type, address, script)",
        if mode == Mode::C10 { "Every leaf is compared with the reference controller automaton: exact message list and outcome class." } else { "Every leaf is checked against invariants I1-I5 (no reference conversation)." }
    );
    rep.trusted_base = vec![if mode == Mode::C10 { "ctlsys.rs RefCtl (reference controller automaton, ~120 lines)".into() } else { "ctlsys.rs invariants() (I1-I4) and the metamorphic I5".into() }, "ctlsys.rs ScriptBus".into()];
    let horizon = if thorough { 12 } else { 9 };
    let _ = DEADLINE.set((ctx.start, ctx.budget_s()));
    let configs: Vec<(usize, u16, u16)> = if thorough {
        let mut v = vec![];
        for ti in 0..11 {
            v.push((ti, 3u16, 5u16));
        }
        v.extend([(5, 0, 0x0100), (5, 0xFFFF, 0xFFFE), (8, 0x0103, 0x0003)]);
        v
    } else {
        vec![(5, 3, 5), (8, 0xFFFF, 0xFFFE), (2, 0, 0x0100)]
    };
    // jobs = (config, op, first two symbols)
    let oplist = ops();
    let mut jobs: Vec<(usize, usize, usize, usize)> = vec![];
    for ci in 0..configs.len() {
        for oi in 0..oplist.len() {
            for a in 0..N_REP {
                for b in 0..N_REP {
                    jobs.push((ci, oi, a, b));
                }
            }
        }
    }
    let mut setups: Vec<Setup> = configs.iter().map(|&(ti, o, f)| make_setup(ti, o, f)).collect();
    // operation pairs on ONE Sign object: a prelude operation, then the complete reply tree of the second operation,
    // judged against the same memoryless reference (first configuration only; configure and configure_if_needed as
    // second operation in the thorough tier only)
    let mut configs = configs;
    let second_ops: Vec<Op> = if thorough { vec![Op::ShutDown, Op::Show, Op::LoadNext, Op::SendPages(0), Op::SendPages(1), Op::Configure] } else { vec![Op::ShutDown, Op::Show, Op::LoadNext, Op::SendPages(0), Op::SendPages(1)] };
    for pid in 1..=N_PRELUDES {
        let (ti, o, f) = configs[0];
        setups.push(with_prelude(make_setup(ti, o, f), pid));
        configs.push((ti, o, f));
        let ci = setups.len() - 1;
        for op in &second_ops {
            let oi = oplist.iter().position(|x| x == op).unwrap();
            for a in 0..N_REP {
                for b in 0..N_REP {
                    jobs.push((ci, oi, a, b));
                }
            }
        }
    }
    let accs = par_range(jobs.len() as u64, 8, || (Acc::default(), TreeStats::default(), std::collections::BTreeMap::<String, TreeStats>::new()), |st, j| {
        let (ci, oi, a, b) = jobs[j as usize];
        let su = &setups[ci];
        let op = oplist[oi];
        if let Some((t0, budget)) = DEADLINE.get() {
            if t0.elapsed().as_secs_f64() > *budget {
                ABORT.store(true, std::sync::atomic::Ordering::Relaxed);
            }
        }
        if ABORT.load(std::sync::atomic::Ordering::Relaxed) {
            st.1.aborted = true;
            return;
        }
        arm_prelude(su);
        // only expand (a,b) if the run with prefix [a] is starved (else the leaf [a] is handled by the b==0 job)
        let one = run_real(op, su.own, su.foreign, su.typ, &su.page_lists, &[rep_of(a)]);
        let mut local = TreeStats::default();
        if one.outcome == Outcome::Starved && one.panic.is_none() {
            let mut prefix = vec![a, b];
            explore(mode, id, su, configs[ci].0, op, &mut prefix, horizon_for(op, horizon), &mut st.0, &mut local, (j as u64) << 36);
        } else if b == 0 {
            let mut prefix = vec![a];
            explore(mode, id, su, configs[ci].0, op, &mut prefix, horizon_for(op, horizon), &mut st.0, &mut local, (j as u64) << 36);
        }
        st.1.runs += local.runs;
        st.1.leaves += local.leaves;
        st.1.cut += local.cut;
        st.1.max_depth = st.1.max_depth.max(local.max_depth);
        st.1.aborted |= local.aborted;
        crate::ctlsys::set_prelude(None);
        let e = st.2.entry(format!("{} / {:?} / own {:04X}{}", op_name(op), su.typ, su.own, su.prelude.as_ref().map(|p| format!(" / after prelude {}", p.0)).unwrap_or_default())).or_default();
        e.runs += local.runs;
        e.leaves += local.leaves;
        e.cut += local.cut;
        e.max_depth = e.max_depth.max(local.max_depth);
    });
    let mut all = Acc::default();
    let mut total = TreeStats::default();
    let mut per: std::collections::BTreeMap<String, TreeStats> = Default::default();
    for (a, s, m) in accs {
        all.merge(id, a);
        total.runs += s.runs;
        total.leaves += s.leaves;
        total.cut += s.cut;
        total.max_depth = total.max_depth.max(s.max_depth);
        total.aborted |= s.aborted;
        for (k, v) in m {
            let e = per.entry(k).or_default();
            e.runs += v.runs;
            e.leaves += v.leaves;
            e.cut += v.cut;
            e.max_depth = e.max_depth.max(v.max_depth);
        }
    }
    all.samples.push(case_json(&setups[0], configs[0].0, Op::Configure, &[12, 31, 0, 26, 38, 38, 2]));
    all.samples.push(case_json(&setups[0], configs[0].0, Op::SendPages(1), &[27, 38, 38, 38, 38, 18]));
    all.samples.push(case_json(&setups[0], configs[0].0, Op::Show, &[7, 28, 10, 9]));
    let nt = rep.absorb(all);
    rep.states = nt.max(1);
    rep.transitions = total.runs;
    rep.evaluations = rep.evaluations.max(total.leaves + total.cut);
    rep.set("tree", json!({"runs_of_real_code": total.runs, "complete_leaves": total.leaves, "prefixes_cut_at_polling_horizon": total.cut, "max_script_length": total.max_depth, "polling_horizon": horizon}));
    rep.set("per_operation", Value::Object(per.into_iter().map(|(k, v)| (k, json!({"runs": v.runs, "leaves": v.leaves, "cut": v.cut, "max_len": v.max_depth}))).collect()));
    rep.set("configs", json!(configs.iter().map(|c| format!("{:?} own {:04X} foreign {:04X}", SIGN_TYPES[c.0].0, c.1, c.2)).collect::<Vec<_>>()));
    if total.aborted || ABORT.load(std::sync::atomic::Ordering::Relaxed) {
        rep.cap(format!("wall-clock budget of {:.0} s reached: the reply tree was NOT enumerated completely ({} runs done); a tree this large means an operation that no longer stops on disallowed replies", ctx.budget_s(), total.runs));
    }
    if total.cut > 0 {
        rep.assumptions.push(format!("show/load polling loops are cut after {} replies; {} cut prefixes were still checked for everything but the final outcome", horizon, total.cut));
    }
    let o = rep.outcomes.clone();
    let has = |s: &str| o.0.iter().any(|(k, v)| k.ends_with(s) && *v > 0);
    rep.guard("success-protocol-error-and-bus-error-leaves", (has(":ok") || has(":ok-manual")) && has(":protocol-error") && has(":bus-error") || !rep.violations.is_empty(), format!("{} outcome classes", o.0.len()));
    rep.guard("both-flip-styles-reported", has(":ok-manual") && has(":ok-automatic") || !rep.violations.is_empty(), "send_pages returned both styles");
    rep
}

fn horizon_for(op: Op, h: usize) -> usize {
    match op {
        Op::Show | Op::LoadNext => h,
        // the long page list: three attempts of 64+ chunks each must fit (the tree stays narrow: only "no reply"
        // continues a transfer)
        Op::SendPages(3) => 1000,
        _ => 64,
    }
}

pub fn run(ctx: &Ctx) -> Report {
    run_mode(ctx, Mode::C10)
}

pub fn replay_mode(mode: Mode, case: &Value) -> Result<Vec<Violation>, String> {
    if case["kind"].as_str() != Some("script") {
        return Err("unknown case kind".into());
    }
    let ti = case["type_index"].as_u64().ok_or("type_index")? as usize;
    let su = with_prelude(make_setup(ti, case["own"].as_u64().ok_or("own")? as u16, case["foreign"].as_u64().ok_or("foreign")? as u16), case["prelude"].as_u64().unwrap_or(0) as usize);
    arm_prelude(&su);
    let op = op_from(case["op_code"].as_u64().ok_or("op_code")?);
    let script: Vec<usize> = case["script"].as_array().ok_or("script")?.iter().map(|x| x.as_u64().unwrap() as usize).collect();
    // a cut prefix is one whose run is starved
    let probe = run_real(op, su.own, su.foreign, su.typ, &su.page_lists, &script.iter().map(|&i| rep_of(i)).collect::<Vec<_>>());
    let cut = probe.outcome == Outcome::Starved;
    let (_, _, vs) = check_script(mode, &su, op, &script, cut);
    Ok(vs.into_iter().map(|(c, k, d)| Violation::new(c, k, d, case.clone(), 0)).collect())
}

pub fn replay(_ctx: &Ctx, case: &Value) -> Result<Vec<Violation>, String> {
    replay_mode(Mode::C10, case)
}
