//! C13 — the virtual sign implements the sign-side protocol state machine
//! (E2 BFS over the real VirtualSign in lock-step with the reference automaton of refsign.rs).

use serde_json::{json, Value};

use crate::bfs::{bfs, replay_path, System};
use crate::props::c12::absorb_bfs;
use crate::refmodel::SIGN_TYPES;
use crate::report::{Ctx, Report, Violation};
use crate::signsys::*;

pub fn run(ctx: &Ctx) -> Report {
    let mut rep = Report::new(ctx);
    let thorough = ctx.tier.thorough();
    rep.rule = "E2: breadth-first search over pairs (real VirtualSign, reference automaton) to a fixed point under size bounds; on every transition the reply, state(), sign_type() and pages() \
                of the implementation are compared with the automaton, and every stored page must have the configured size. distinct_nontrivial = distinct stored pair states other than the initial one"
        .into();
    rep.trusted_base = vec!["refsign.rs (reference automaton of the documented sign-side machine, ~200 lines)".into(), "bfs.rs explorer".into()];
    let mut runs = vec![];
    let mut tags_all = 0u64;
    let budget = ctx.clone();
    let deadline = move || budget.over_budget();
    let max_states = if thorough { 6_000_000 } else { 1_500_000 };
    let mut alphabets = vec![alphabet_r1(thorough), alphabet_r2()];
    if thorough {
        alphabets.push(alphabet_r2_big());
    }
    let r3: Vec<usize> = (0..11).collect();
    for i in r3 {
        alphabets.push(alphabet_r3(SIGN_TYPES[i].0, SIGN_TYPES[(i + 1) % 11].0));
    }
    for alpha in alphabets {
        for automatic in [false, true] {
            let sys = SignSys { alpha: alpha.clone(), automatic, oracle: Oracle::LockStep };
            let res = bfs(&sys, max_states, &deadline);
            tags_all |= res.stats.tags;
            absorb_bfs(&mut rep, &sys.name(), &res.stats, &mut runs);
            for v in res.violations {
                rep.violation(v);
            }
            for s in res.sample_paths.into_iter().take(1) {
                rep.sample(s);
            }
        }
    }
    // E5: second engine on the R2 runs (and R2-big in the thorough tier)
    let mut xs = vec![];
    if rep.violations.is_empty() {
        let mut alphas = vec![alphabet_r2()];
        if thorough {
            alphas.push(alphabet_r2_big());
        }
        for alpha in alphas {
            for automatic in [false, true] {
                crate::xcheck::cross_check(&mut rep, &mut xs, &runs, SignSys { alpha: alpha.clone(), automatic, oracle: Oracle::LockStep });
            }
        }
    }
    rep.set("stateright_cross_check", Value::Array(xs));
    rep.set("bfs_runs", Value::Array(runs));
    let diverged = !rep.violations.is_empty();
    let mut missing = vec![];
    for (i, s) in crate::refmodel::STATES.iter().enumerate() {
        if tags_all & (T_STATE << i) == 0 {
            missing.push(format!("{:?}", s.0));
        }
    }
    rep.guard("all-13-protocol-states-reached", missing.is_empty() || diverged, format!("missing: {:?}", missing));
    let mut ops_missing = vec![];
    for (i, o) in crate::refmodel::OPS.iter().enumerate() {
        if tags_all & (T_ACK << i) == 0 {
            ops_missing.push(format!("{:?} never acknowledged", o.0));
        }
        if tags_all & (T_REFUSED << i) == 0 && o.0 != flipdot_core::Operation::StartReset {
            ops_missing.push(format!("{:?} never refused", o.0));
        }
    }
    rep.guard("every-operation-acked-and-refused", ops_missing.is_empty() || diverged, format!("{:?}", ops_missing));
    rep.guard("page-stored", tags_all & T_PAGE_STORED != 0 || diverged, "at least one transition stored a page");
    rep.guard("received-and-failed-reached", (tags_all & T_RECEIVED != 0 && tags_all & T_FAILED != 0) || diverged, "both transfer outcomes seen");
    rep.set("dont_care_1_received_or_failed_after_wrong_length_buffer_seen", json!(tags_all & T_OPEN1 != 0));
    rep.set("dont_care_2_count_message_while_not_receiving_with_complete_buffer_seen", json!(tags_all & T_OPEN2 != 0));
    rep.assumptions.push("don't-cares: (1) a transfer whose count matches but which contained a buffer of the wrong length may end received or failed; (2) a count message while not receiving may or may not store a buffered complete page (C14 decides); (3) chunk counters >= 65536 are outside the bounds".into());
    rep
}

pub fn replay(_ctx: &Ctx, case: &Value) -> Result<Vec<Violation>, String> {
    if case["kind"].as_str() != Some("path") {
        return Err("unknown case kind".into());
    }
    let path: Vec<usize> = case["actions"].as_array().ok_or("actions")?.iter().map(|x| x.as_u64().unwrap() as usize).collect();
    let sysj = &case["system"];
    let alpha = alphabet_by_name(sysj["alphabet"].as_str().ok_or("alphabet")?).ok_or("unknown alphabet")?;
    let sys = SignSys { alpha, automatic: sysj["automatic"].as_bool().unwrap_or(false), oracle: Oracle::LockStep };
    Ok(replay_path(&sys, &path)?.into_iter().map(|(c, k, d)| Violation::new(&c, k, d, case.clone(), 0)).collect())
}
