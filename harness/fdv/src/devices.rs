//! E4 — scripted environments: a Read/Write stream with per-call answers, a serial device whose every
//! configuration call can be made to fail, and a scripted SignBus. All log into shared event lists.

use std::cell::RefCell;
use std::io::{self, Read, Write};
use std::rc::Rc;
use std::time::Duration;

use serial_core::{BaudRate, CharSize, FlowControl, Parity, SerialDevice, SerialPortSettings, StopBits};

#[derive(Clone, Debug, PartialEq, Eq)]
pub enum RAns {
    /// deliver at most this many bytes (and at most what was requested / is left on the tape)
    Deliver(usize),
    Interrupted,
    Fail(io::ErrorKind),
    /// Ok(0) although bytes may be left
    Eof,
}

#[derive(Clone, Debug, PartialEq, Eq)]
pub enum WAns {
    Accept(usize),
    Interrupted,
    Fail(io::ErrorKind),
    Zero,
}

#[derive(Clone, Debug, PartialEq)]
pub enum Ev {
    Read { requested: usize, got: Result<usize, io::ErrorKind> },
    Write { offered: usize, got: Result<usize, io::ErrorKind>, bytes: Vec<u8> },
    Flush,
    Sleep(Duration),
    ReadSettings(Result<(), serial_core::ErrorKind>),
    SetBaud(BaudRate, Result<(), serial_core::ErrorKind>),
    SetCharSize(CharSize),
    SetParity(Parity),
    SetStopBits(StopBits),
    SetFlow(FlowControl),
    WriteSettings(Line, Result<(), serial_core::ErrorKind>),
    SetTimeout(Duration, Result<(), serial_core::ErrorKind>),
    Note(&'static str),
}

pub type Log = Rc<RefCell<Vec<Ev>>>;

pub fn new_log() -> Log {
    Rc::new(RefCell::new(vec![]))
}

/// A byte stream whose every read/write call is answered from a script (default: be generous).
#[derive(Debug)]
pub struct ScriptIo {
    pub tape: Vec<u8>,
    pub pos: usize,
    pub rscript: Vec<RAns>,
    pub wscript: Vec<WAns>,
    /// answer once the read script is used up
    pub rdefault: RAns,
    /// answer when the tape is exhausted (and the script says Deliver)
    pub at_end: RAns,
    pub rcalls: usize,
    pub wcalls: usize,
    pub written: Vec<u8>,
    pub log: Log,
    pub marker: &'static str,
}

impl ScriptIo {
    pub fn new(tape: Vec<u8>, log: Log) -> Self {
        ScriptIo { tape, pos: 0, rscript: vec![], wscript: vec![], rdefault: RAns::Deliver(usize::MAX), at_end: RAns::Eof, rcalls: 0, wcalls: 0, written: vec![], log, marker: "fdv-injected" }
    }
    pub fn remaining(&self) -> &[u8] {
        &self.tape[self.pos..]
    }
}

impl Read for ScriptIo {
    fn read(&mut self, buf: &mut [u8]) -> io::Result<usize> {
        slow_port_block();
        let idx = self.rcalls;
        self.rcalls += 1;
        let mut ans = self.rscript.get(idx).cloned().unwrap_or_else(|| self.rdefault.clone());
        if matches!(ans, RAns::Deliver(_)) && self.pos >= self.tape.len() && !buf.is_empty() {
            ans = self.at_end.clone();
            if matches!(ans, RAns::Deliver(_)) {
                ans = RAns::Eof;
            }
        }
        let res = match ans {
            RAns::Deliver(max) => {
                let n = max.min(buf.len()).min(self.tape.len() - self.pos);
                buf[..n].copy_from_slice(&self.tape[self.pos..self.pos + n]);
                self.pos += n;
                Ok(n)
            }
            RAns::Interrupted => Err(io::ErrorKind::Interrupted),
            RAns::Fail(k) => Err(k),
            RAns::Eof => Ok(0),
        };
        stamp_now();
        self.log.borrow_mut().push(Ev::Read { requested: buf.len(), got: res.clone() });
        res.map_err(|k| io::Error::new(k, self.marker))
    }
}

impl Write for ScriptIo {
    fn write(&mut self, buf: &[u8]) -> io::Result<usize> {
        slow_port_block();
        let idx = self.wcalls;
        self.wcalls += 1;
        let ans = self.wscript.get(idx).cloned().unwrap_or(WAns::Accept(usize::MAX));
        let res = match ans {
            WAns::Accept(max) => {
                let n = max.min(buf.len());
                self.written.extend_from_slice(&buf[..n]);
                Ok(n)
            }
            WAns::Interrupted => Err(io::ErrorKind::Interrupted),
            WAns::Fail(k) => Err(k),
            WAns::Zero => Ok(0),
        };
        let taken = match &res {
            Ok(n) => buf[..*n].to_vec(),
            Err(_) => vec![],
        };
        stamp_now();
        self.log.borrow_mut().push(Ev::Write { offered: buf.len(), got: res.clone(), bytes: taken });
        res.map_err(|k| io::Error::new(k, self.marker))
    }
    fn flush(&mut self) -> io::Result<()> {
        self.log.borrow_mut().push(Ev::Flush);
        Ok(())
    }
}

/// Line settings as a plain value.
#[derive(Clone, Copy, Debug, PartialEq, Eq)]
pub struct Line {
    pub baud: BaudRate,
    pub char_size: CharSize,
    pub parity: Parity,
    pub stop_bits: StopBits,
    pub flow: FlowControl,
}

pub const WANT_LINE: Line = Line { baud: BaudRate::Baud19200, char_size: CharSize::Bits8, parity: Parity::ParityNone, stop_bits: StopBits::Stop1, flow: FlowControl::FlowNone };

#[derive(Clone, Copy, Debug, PartialEq, Eq)]
pub enum CfgCall {
    ReadSettings,
    SetBaudRate,
    WriteSettings,
    SetTimeout,
}

/// Settings object handed to `reconfigure`; logs every setter; `set_baud_rate` can fail.
#[derive(Debug, Clone)]
pub struct ScriptSettings {
    pub line: Line,
    pub fail_baud: Option<serial_core::ErrorKind>,
    pub log: Log,
}

impl SerialPortSettings for ScriptSettings {
    fn baud_rate(&self) -> Option<BaudRate> {
        Some(self.line.baud)
    }
    fn char_size(&self) -> Option<CharSize> {
        Some(self.line.char_size)
    }
    fn parity(&self) -> Option<Parity> {
        Some(self.line.parity)
    }
    fn stop_bits(&self) -> Option<StopBits> {
        Some(self.line.stop_bits)
    }
    fn flow_control(&self) -> Option<FlowControl> {
        Some(self.line.flow)
    }
    fn set_baud_rate(&mut self, baud_rate: BaudRate) -> serial_core::Result<()> {
        if let Some(k) = self.fail_baud {
            self.log.borrow_mut().push(Ev::SetBaud(baud_rate, Err(k)));
            return Err(serial_core::Error::new(k, "fdv-injected set_baud_rate failure"));
        }
        self.log.borrow_mut().push(Ev::SetBaud(baud_rate, Ok(())));
        self.line.baud = baud_rate;
        Ok(())
    }
    fn set_char_size(&mut self, char_size: CharSize) {
        self.log.borrow_mut().push(Ev::SetCharSize(char_size));
        self.line.char_size = char_size;
    }
    fn set_parity(&mut self, parity: Parity) {
        self.log.borrow_mut().push(Ev::SetParity(parity));
        self.line.parity = parity;
    }
    fn set_stop_bits(&mut self, stop_bits: StopBits) {
        self.log.borrow_mut().push(Ev::SetStopBits(stop_bits));
        self.line.stop_bits = stop_bits;
    }
    fn set_flow_control(&mut self, flow_control: FlowControl) {
        self.log.borrow_mut().push(Ev::SetFlow(flow_control));
        self.line.flow = flow_control;
    }
}

/// A serial device over a shared ScriptIo with fully scriptable configuration calls.
#[derive(Debug)]
pub struct ScriptPort {
    pub io: Rc<RefCell<ScriptIo>>,
    pub line: Rc<RefCell<Line>>,
    pub timeout: Rc<RefCell<Duration>>,
    pub fault: Option<(CfgCall, serial_core::ErrorKind)>,
    /// which occurrence (1-based) of the faulty call fails; 0 = every occurrence
    pub fault_occurrence: usize,
    pub seen: Rc<RefCell<[usize; 4]>>,
    pub log: Log,
}

impl ScriptPort {
    pub fn new(io: Rc<RefCell<ScriptIo>>, line: Line, timeout: Duration, fault: Option<(CfgCall, serial_core::ErrorKind)>) -> Self {
        let log = io.borrow().log.clone();
        ScriptPort { io, line: Rc::new(RefCell::new(line)), timeout: Rc::new(RefCell::new(timeout)), fault, fault_occurrence: 0, seen: Rc::new(RefCell::new([0; 4])), log }
    }
    fn fails(&self, c: CfgCall) -> Option<serial_core::ErrorKind> {
        let idx = match c {
            CfgCall::ReadSettings => 0,
            CfgCall::SetBaudRate => 1,
            CfgCall::WriteSettings => 2,
            CfgCall::SetTimeout => 3,
        };
        let n = {
            let mut seen = self.seen.borrow_mut();
            if c != CfgCall::SetBaudRate {
                seen[idx] += 1;
            }
            seen[idx]
        };
        match self.fault {
            Some((f, k)) if f == c && (self.fault_occurrence == 0 || c == CfgCall::SetBaudRate || n == self.fault_occurrence) => Some(k),
            _ => None,
        }
    }
}

impl Read for ScriptPort {
    fn read(&mut self, buf: &mut [u8]) -> io::Result<usize> {
        self.io.borrow_mut().read(buf)
    }
}

impl Write for ScriptPort {
    fn write(&mut self, buf: &[u8]) -> io::Result<usize> {
        self.io.borrow_mut().write(buf)
    }
    fn flush(&mut self) -> io::Result<()> {
        self.io.borrow_mut().flush()
    }
}

impl SerialDevice for ScriptPort {
    type Settings = ScriptSettings;

    fn read_settings(&self) -> serial_core::Result<ScriptSettings> {
        if let Some(k) = self.fails(CfgCall::ReadSettings) {
            self.log.borrow_mut().push(Ev::ReadSettings(Err(k)));
            return Err(serial_core::Error::new(k, "fdv-injected read_settings failure"));
        }
        self.log.borrow_mut().push(Ev::ReadSettings(Ok(())));
        Ok(ScriptSettings { line: *self.line.borrow(), fail_baud: self.fails(CfgCall::SetBaudRate), log: self.log.clone() })
    }

    fn write_settings(&mut self, settings: &ScriptSettings) -> serial_core::Result<()> {
        if let Some(k) = self.fails(CfgCall::WriteSettings) {
            self.log.borrow_mut().push(Ev::WriteSettings(settings.line, Err(k)));
            return Err(serial_core::Error::new(k, "fdv-injected write_settings failure"));
        }
        self.log.borrow_mut().push(Ev::WriteSettings(settings.line, Ok(())));
        *self.line.borrow_mut() = settings.line;
        Ok(())
    }

    fn timeout(&self) -> Duration {
        *self.timeout.borrow()
    }

    fn set_timeout(&mut self, timeout: Duration) -> serial_core::Result<()> {
        if let Some(k) = self.fails(CfgCall::SetTimeout) {
            self.log.borrow_mut().push(Ev::SetTimeout(timeout, Err(k)));
            return Err(serial_core::Error::new(k, "fdv-injected set_timeout failure"));
        }
        self.log.borrow_mut().push(Ev::SetTimeout(timeout, Ok(())));
        *self.timeout.borrow_mut() = timeout;
        Ok(())
    }

    fn set_rts(&mut self, _: bool) -> serial_core::Result<()> {
        self.log.borrow_mut().push(Ev::Note("set_rts"));
        Ok(())
    }
    fn set_dtr(&mut self, _: bool) -> serial_core::Result<()> {
        self.log.borrow_mut().push(Ev::Note("set_dtr"));
        Ok(())
    }
    fn read_cts(&mut self) -> serial_core::Result<bool> {
        Ok(false)
    }
    fn read_dsr(&mut self) -> serial_core::Result<bool> {
        Ok(false)
    }
    fn read_ri(&mut self) -> serial_core::Result<bool> {
        Ok(false)
    }
    fn read_cd(&mut self) -> serial_core::Result<bool> {
        Ok(false)
    }
}

// ---------------------------------------------------------------------------------------------------------
// Running messages through a real SerialSignBus over a ScriptPort, with virtual or real time.

use flipdot_core::{Message, SignBus};
use flipdot_serial::SerialSignBus;
use std::time::Instant;

/// What one `process_message` call did at the port, in order.
#[derive(Debug, Clone)]
pub struct Exchange {
    pub result: Result<Option<Message<'static>>, String>,
    pub panicked: Option<crate::util::Panicked>,
    /// events of this call only (port writes/reads and pauses), in order
    pub events: Vec<Ev>,
    /// real-clock stamps (seconds since the start of the run) parallel to `events`; empty with the virtual clock
    pub stamps: Vec<f64>,
    pub returned_at: f64,
    pub written: Vec<u8>,
    pub tape_pos_after: usize,
}

pub struct SerialRun {
    pub exchanges: Vec<Exchange>,
    pub setup_ok: bool,
}

thread_local! {
    /// Real time every port read/write call of a ScriptIo blocks for before answering (a port that is not instantaneous).
    static SLOW_PORT: std::cell::Cell<Duration> = const { std::cell::Cell::new(Duration::ZERO) };
}

/// Makes every ScriptIo read/write call on this thread block for `d` of real time before it answers (ZERO = off).
pub fn set_slow_port(d: Duration) {
    SLOW_PORT.with(|c| c.set(d));
}

fn slow_port_block() {
    let d = SLOW_PORT.with(|c| c.get());
    if !d.is_zero() {
        std::thread::sleep(d);
    }
}

thread_local! {
    static STAMPS: RefCell<Option<(Instant, Vec<f64>)>> = const { RefCell::new(None) };
}

/// Drives `msgs` through one SerialSignBus. `virtual_clock`: pauses are logged instead of slept.
pub fn serial_run(msgs: &[Message<'static>], tape: Vec<u8>, rscript: Vec<RAns>, wscript: Vec<WAns>, at_end: RAns, virtual_clock: bool) -> SerialRun {
    let log = new_log();
    let mut sio = ScriptIo::new(tape, log.clone());
    sio.rscript = rscript;
    sio.wscript = wscript;
    sio.at_end = at_end;
    let io = Rc::new(RefCell::new(sio));
    let port = ScriptPort::new(io.clone(), Line { baud: BaudRate::Baud9600, char_size: CharSize::Bits7, parity: Parity::ParityEven, stop_bits: StopBits::Stop2, flow: FlowControl::FlowHardware }, Duration::from_millis(1), None);
    let mut bus = match SerialSignBus::try_new(port) {
        Ok(b) => b,
        Err(_) => return SerialRun { exchanges: vec![], setup_ok: false },
    };
    let t0 = Instant::now();
    if virtual_clock {
        let l2 = log.clone();
        flipdot_serial::verif_hooks::set_handler(Some(Box::new(move |d| l2.borrow_mut().push(Ev::Sleep(d)))));
    } else {
        flipdot_serial::verif_hooks::set_handler(None);
    }
    let mut exchanges = vec![];
    for m in msgs {
        let ev_start = log.borrow().len();
        let w_start = io.borrow().written.len();
        // real clock: stamp events by polling the log length from inside the port is not possible; instead
        // the port itself stamps through STAMP_HOOK below.
        STAMPS.with(|s| *s.borrow_mut() = if virtual_clock { None } else { Some((t0, vec![])) });
        let r = crate::util::catch(|| bus.process_message(m.clone()).map(|o| o.map(|x| crate::refmodel::own(&x))).map_err(|e| e.to_string()));
        let returned_at = t0.elapsed().as_secs_f64();
        let stamps = STAMPS.with(|s| s.borrow_mut().take().map(|x| x.1).unwrap_or_default());
        let events: Vec<Ev> = log.borrow()[ev_start..].to_vec();
        let written = io.borrow().written[w_start..].to_vec();
        let tape_pos_after = io.borrow().pos;
        let (result, panicked) = match r {
            Ok(res) => (res, None),
            Err(p) => (Err(format!("panic: {}", p.message)), Some(p)),
        };
        exchanges.push(Exchange { result, panicked, events, stamps, returned_at, written, tape_pos_after });
    }
    flipdot_serial::verif_hooks::set_handler(None);
    SerialRun { exchanges, setup_ok: true }
}

/// Called by ScriptIo on every read/write when a real-clock run is active.
pub fn stamp_now() {
    STAMPS.with(|s| {
        if let Some((t0, v)) = s.borrow_mut().as_mut() {
            let t = t0.elapsed().as_secs_f64();
            v.push(t);
        }
    });
}
