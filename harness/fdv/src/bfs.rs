//! E2 — explicit-state breadth-first search over real objects, level-synchronous and deterministic.

use std::collections::HashMap;
use std::hash::Hash;

use serde_json::{json, Value};

use crate::report::Violation;
use crate::util::{threads, Histo};

/// Result of executing one action in one state.
pub struct Step<S> {
    /// Successor (None when the transition unwound or must not be followed, e.g. after an oracle mismatch).
    pub next: Option<S>,
    /// Oracle failures on this transition: (clause, class, detail).
    pub violations: Vec<(String, String, String)>,
    /// Bit set of vacuity-guard witnesses seen on this transition.
    pub tags: u64,
    /// Outcome label for the histogram.
    pub outcome: &'static str,
}

pub trait System: Sync {
    type State: Clone + Eq + Hash + Send + Sync;
    fn name(&self) -> String;
    fn initial(&self) -> Self::State;
    fn n_actions(&self) -> usize;
    /// Whether action `a` is offered in state `s` (alphabet restrictions, documented per system).
    fn enabled(&self, _s: &Self::State, _a: usize) -> bool {
        true
    }
    fn step(&self, s: &Self::State, a: usize) -> Step<Self::State>;
    /// Successors outside the bounds are executed and checked but not expanded.
    fn within_bounds(&self, s: &Self::State) -> bool;
    /// Safety net against hidden, model-invisible counters that grow without bound under a faulty implementation:
    /// the search stops (reported as capped) at this depth. On the current tree every run reaches its fixed
    /// point well below it (deepest: 39).
    fn max_depth(&self) -> u32 {
        100
    }
    /// Second, more expensive bound, evaluated only for successors that passed `within_bounds` and are not yet known.
    fn within_bounds_new(&self, _s: &Self::State) -> bool {
        true
    }
    fn action_json(&self, a: usize) -> Value;
    /// Description used in replay files so that the run can be rebuilt.
    fn config_json(&self) -> Value;
}

#[derive(Debug, Default, Clone)]
pub struct BfsStats {
    pub states: u64,
    pub transitions: u64,
    pub cut: u64,
    pub dead: u64,
    pub depth: u32,
    pub levels: Vec<u64>,
    pub tags: u64,
    pub outcomes: Histo,
    pub capped: Option<String>,
}

pub struct BfsResult {
    pub stats: BfsStats,
    pub violations: Vec<Violation>,
    pub sample_paths: Vec<Value>,
    pub deepest_path: Vec<usize>,
}

struct Node {
    parent: u32,
    action: u32,
}

fn path_of(nodes: &[Node], mut id: u32) -> Vec<usize> {
    let mut p = vec![];
    while id != 0 {
        let n = &nodes[id as usize];
        p.push(n.action as usize);
        id = n.parent;
    }
    p.reverse();
    p
}

pub fn path_case<Y: System>(sys: &Y, path: &[usize]) -> Value {
    json!({
        "kind": "path",
        "system": sys.config_json(),
        "actions": path,
        "rendered": path.iter().map(|&a| sys.action_json(a)).collect::<Vec<_>>(),
    })
}

/// Breadth-first search to the fixed point (or the state cap). Deterministic for any thread count.
pub fn rss_gb() -> f64 {
    std::fs::read_to_string("/proc/self/statm")
        .ok()
        .and_then(|s| s.split_whitespace().nth(1).and_then(|x| x.parse::<f64>().ok()))
        .map(|pages| pages * 4096.0 / 1e9)
        .unwrap_or(0.0)
}

pub fn max_rss_gb() -> f64 {
    std::env::var("VERIF_MAX_RSS_GB").ok().and_then(|s| s.parse().ok()).unwrap_or(20.0)
}

pub fn bfs<Y: System>(sys: &Y, max_states: u64, deadline: &(dyn Fn() -> bool + Sync)) -> BfsResult {
    let mut seen: HashMap<Y::State, u32> = HashMap::new();
    let mut nodes: Vec<Node> = vec![Node { parent: 0, action: 0 }];
    let init = sys.initial();
    seen.insert(init.clone(), 0);
    let mut frontier: Vec<(u32, Y::State)> = vec![(0, init)];
    let mut stats = BfsStats::default();
    stats.states = 1;
    let mut viols: HashMap<String, (u64, u32, usize, (String, String, String))> = HashMap::new(); // sig -> (order, parent, action, v)
    let nact = sys.n_actions();
    let nthreads = threads();
    let mut depth = 0u32;
    let mut sample_ids: Vec<u32> = vec![];

    while !frontier.is_empty() {
        stats.levels.push(frontier.len() as u64);
        if deadline() {
            stats.capped = Some(format!("wall-clock budget reached at depth {} with {} frontier states unexpanded", depth, frontier.len()));
            break;
        }
        let chunk = ((frontier.len() + nthreads * 4 - 1) / (nthreads * 4)).max(1);
        let chunks: Vec<&[(u32, Y::State)]> = frontier.chunks(chunk).collect();
        struct Out<S> {
            cands: Vec<(u32, u32, S)>,
            viols: Vec<(u32, usize, (String, String, String))>,
            transitions: u64,
            cut: u64,
            dead: u64,
            tags: u64,
            outcomes: Histo,
        }
        let next_chunk = std::sync::atomic::AtomicUsize::new(0);
        let abort = std::sync::atomic::AtomicBool::new(false);
        let seen_ref = &seen;
        let chunks_ref = &chunks;
        let mut outs: Vec<Option<Out<Y::State>>> = (0..chunks.len()).map(|_| None).collect();
        let results: Vec<Vec<(usize, Out<Y::State>)>> = std::thread::scope(|sc| {
            let mut hs = vec![];
            for _ in 0..nthreads.min(chunks.len()) {
                hs.push(sc.spawn(|| {
                    let mut mine = vec![];
                    loop {
                        let ci = next_chunk.fetch_add(1, std::sync::atomic::Ordering::Relaxed);
                        if ci >= chunks_ref.len() {
                            break;
                        }
                        let mut o = Out { cands: vec![], viols: vec![], transitions: 0, cut: 0, dead: 0, tags: 0, outcomes: Histo::default() };
                        if abort.load(std::sync::atomic::Ordering::Relaxed) {
                            mine.push((ci, o));
                            continue;
                        }
                        if ci % 8 == 0 && (deadline() || rss_gb() > max_rss_gb()) {
                            abort.store(true, std::sync::atomic::Ordering::Relaxed);
                        }
                        for (id, st) in chunks_ref[ci].iter() {
                            for a in 0..nact {
                                if !sys.enabled(st, a) {
                                    continue;
                                }
                                let r = sys.step(st, a);
                                o.transitions += 1;
                                o.tags |= r.tags;
                                o.outcomes.add(r.outcome);
                                for v in r.violations {
                                    o.viols.push((*id, a, v));
                                }
                                match r.next {
                                    None => o.dead += 1,
                                    Some(n) => {
                                        if !sys.within_bounds(&n) {
                                            o.cut += 1;
                                        } else if !seen_ref.contains_key(&n) {
                                            if sys.within_bounds_new(&n) {
                                                o.cands.push((*id, a as u32, n));
                                            } else {
                                                o.cut += 1;
                                            }
                                        }
                                    }
                                }
                            }
                        }
                        mine.push((ci, o));
                    }
                    mine
                }));
            }
            hs.into_iter().map(|h| h.join().expect("bfs worker panicked (machinery)")).collect()
        });
        for r in results {
            for (ci, o) in r {
                outs[ci] = Some(o);
            }
        }
        let aborted = abort.load(std::sync::atomic::Ordering::Relaxed);
        let mut next_frontier: Vec<(u32, Y::State)> = vec![];
        let mut capped = false;
        for o in outs.into_iter().flatten() {
            stats.transitions += o.transitions;
            stats.cut += o.cut;
            stats.dead += o.dead;
            stats.tags |= o.tags;
            stats.outcomes.merge(&o.outcomes);
            for (parent, a, v) in o.viols {
                let sig = format!("{}/{}", v.0, v.1);
                let order = ((depth as u64) << 40) | ((parent as u64) << 12) | (a as u64 & 0xFFF);
                match viols.get(&sig) {
                    Some(old) if old.0 <= order => {}
                    _ => {
                        viols.insert(sig, (order, parent, a, v));
                    }
                }
            }
            for (parent, a, s) in o.cands {
                if capped {
                    break;
                }
                if !seen.contains_key(&s) {
                    let id = nodes.len() as u32;
                    nodes.push(Node { parent, action: a });
                    seen.insert(s.clone(), id);
                    next_frontier.push((id, s));
                    stats.states += 1;
                    if stats.states >= max_states {
                        capped = true;
                    }
                }
            }
        }
        if aborted {
            stats.capped = Some(format!("wall-clock or memory cap reached while expanding depth {} ({} GB resident); the level was not completed", depth, rss_gb()));
            break;
        }
        if capped {
            stats.capped = Some(format!("state cap {} reached at depth {}", max_states, depth + 1));
            break;
        }
        if let Some(last) = next_frontier.last() {
            if sample_ids.len() < 3 {
                sample_ids.push(last.0);
            }
        }
        frontier = next_frontier;
        depth += 1;
        if depth >= sys.max_depth() && !frontier.is_empty() {
            stats.capped = Some(format!("depth cap {} reached with {} frontier states unexpanded (a state space that keeps growing linearly with depth means a hidden counter is running away)", depth, frontier.len()));
            stats.levels.push(frontier.len() as u64);
            break;
        }
    }
    stats.depth = depth;
    let mut violations = vec![];
    for (_sig, (order, parent, a, v)) in viols {
        let mut path = path_of(&nodes, parent);
        path.push(a);
        violations.push(Violation::new(&v.0, v.1, v.2, path_case(sys, &path), order));
    }
    violations.sort_by_key(|v| v.order);
    let sample_paths = sample_ids
        .iter()
        .map(|&id| {
            let p = path_of(&nodes, id);
            json!({"system": sys.name(), "path_to_a_deepest_state": p.iter().map(|&a| sys.action_json(a)).collect::<Vec<_>>()})
        })
        .collect();
    let deepest_path = path_of(&nodes, (nodes.len() - 1) as u32);
    BfsResult { stats, violations, sample_paths, deepest_path }
}

/// Re-executes a recorded path from the initial state, returning every oracle failure on the way.
pub fn replay_path<Y: System>(sys: &Y, path: &[usize]) -> Result<Vec<(String, String, String)>, String> {
    let mut s = sys.initial();
    let mut out = vec![];
    for (i, &a) in path.iter().enumerate() {
        if a >= sys.n_actions() {
            return Err(format!("action index {} out of range at step {}", a, i));
        }
        let r = sys.step(&s, a);
        out.extend(r.violations);
        match r.next {
            Some(n) => s = n,
            None => {
                if i + 1 != path.len() {
                    return Err(format!("path has no successor at step {} of {}", i, path.len()));
                }
            }
        }
    }
    Ok(out)
}
