//! Controller-side harness: scripted / responding sign buses, the reply alphabet, the reference controller
//! automaton (C10), conversation invariants (C11) and the transfer trace predicate (C09).

use std::cell::RefCell;
use std::error::Error;
use std::fmt;
use std::rc::Rc;

use flipdot::{PageFlipStyle, Sign, SignError};
use flipdot_core::{Address, ChunkCount, Data, Frame, Message, MsgType, Offset, Operation, Page, SignBus, SignType, State};

use crate::refmodel::{msg_str, own, OPS, STATES};
use crate::util::{catch, Panicked};

/// One symbol of the reply alphabet.
#[derive(Clone, Copy, PartialEq, Eq, Debug, Hash)]
pub enum Rep {
    Report { own: bool, state: usize },
    Ack { own: bool, op: usize },
    Silent,
    GoodbyeOwn,
    Unknown,
    /// bus failure; the payload selects the error value (see `bus_error`)
    BusErr(u8),
}

pub const N_BUS_ERR: usize = 6;
pub const N_REP: usize = 41 + N_BUS_ERR;

pub fn rep_of(i: usize) -> Rep {
    match i {
        0..=12 => Rep::Report { own: true, state: i },
        13..=25 => Rep::Report { own: false, state: i - 13 },
        26..=31 => Rep::Ack { own: true, op: i - 26 },
        32..=37 => Rep::Ack { own: false, op: i - 32 },
        38 => Rep::Silent,
        39 => Rep::GoodbyeOwn,
        40 => Rep::Unknown,
        k => Rep::BusErr((k - 41) as u8),
    }
}

pub fn rep_str(r: Rep) -> String {
    match r {
        Rep::Report { own, state } => format!("{}:{:?}", if own { "own" } else { "foreign" }, STATES[state].0),
        Rep::Ack { own, op } => format!("{}:Ack{:?}", if own { "own" } else { "foreign" }, OPS[op].0),
        Rep::Silent => "none".into(),
        Rep::GoodbyeOwn => "goodbye".into(),
        Rep::Unknown => "unknown-frame".into(),
        Rep::BusErr(k) => format!("BUS-ERROR[{}]", ["custom error type", "io::Error Other", "io::Error TimedOut", "io::Error Interrupted", "FrameError::Io(TimedOut)", "FrameError::Io(UnexpectedEof)"][k as usize]),
    }
}

#[derive(Debug)]
pub struct Injected(pub String);
impl fmt::Display for Injected {
    fn fmt(&self, f: &mut fmt::Formatter<'_>) -> fmt::Result {
        write!(f, "{}", self.0)
    }
}
impl Error for Injected {}

pub const STARVED: &str = "fdv-script-exhausted";
pub const BUS_MARK: &str = "fdv-injected-bus-error";

pub fn rep_to_reply(r: Rep, own_addr: u16, foreign: u16) -> Result<Option<Message<'static>>, u8> {
    let a = |o: bool| Address(if o { own_addr } else { foreign });
    match r {
        Rep::Report { own, state } => Ok(Some(Message::ReportState(a(own), STATES[state].0))),
        Rep::Ack { own, op } => Ok(Some(Message::AckOperation(a(own), OPS[op].0))),
        Rep::Silent => Ok(None),
        Rep::GoodbyeOwn => Ok(Some(Message::Goodbye(a(true)))),
        Rep::Unknown => Ok(Some(Message::Unknown(Frame::new(a(true), MsgType(0x2A), Data::try_new(vec![1u8, 2, 3]).unwrap())))),
        Rep::BusErr(k) => Err(k),
    }
}

/// The injected bus failures: a custom error type, plain io::Errors of several kinds, and the shape a serial bus
/// produces (FrameError::Io wrapping the port's io::Error). The marker text identifies the injection point.
pub fn bus_error(kind: u8, marker: String) -> Box<dyn Error + Send + Sync> {
    use std::io;
    match kind {
        0 => Box::new(Injected(marker)),
        1 => Box::new(io::Error::new(io::ErrorKind::Other, marker)),
        2 => Box::new(io::Error::new(io::ErrorKind::TimedOut, marker)),
        3 => Box::new(io::Error::new(io::ErrorKind::Interrupted, marker)),
        4 => Box::new(flipdot_core::FrameError::Io { source: io::Error::new(io::ErrorKind::TimedOut, marker) }),
        _ => Box::new(flipdot_core::FrameError::Io { source: io::Error::new(io::ErrorKind::UnexpectedEof, marker) }),
    }
}

/// A sign bus that answers from a finite script and records everything it is sent.
#[derive(Debug)]
pub struct ScriptBus {
    pub own_addr: u16,
    pub foreign: u16,
    pub script: Vec<Rep>,
    pub sent: Vec<Message<'static>>,
    pub starved: bool,
    pub calls_after_end: u32,
}

impl SignBus for ScriptBus {
    fn process_message<'a>(&mut self, message: Message<'_>) -> Result<Option<Message<'a>>, Box<dyn Error + Send + Sync>> {
        let idx = self.sent.len();
        if self.starved {
            self.calls_after_end += 1;
            if self.calls_after_end > 1000 {
                panic!("fdv runaway guard: the operation keeps talking to a bus that only fails");
            }
        }
        self.sent.push(own(&message));
        match self.script.get(idx) {
            None => {
                self.starved = true;
                Err(Box::new(Injected(STARVED.into())))
            }
            Some(r) => match rep_to_reply(*r, self.own_addr, self.foreign) {
                Ok(x) => Ok(x.map(|m| own(&m))),
                Err(kind) => Err(bus_error(kind, format!("{} #{}", BUS_MARK, idx))),
            },
        }
    }
}

#[derive(Clone, Copy, PartialEq, Eq, Debug, Hash)]
pub enum Op {
    Configure,
    ConfigureIfNeeded,
    /// index into the page-list table of the caller
    SendPages(usize),
    Show,
    LoadNext,
    ShutDown,
}

#[derive(Clone, PartialEq, Eq, Debug)]
pub enum Outcome {
    Ok,
    OkStyle(bool), // automatic?
    Protocol,
    /// bus error with the index of the failing call (None = not the injected error)
    Bus(Option<usize>),
    Starved,
    Panic(String),
}

impl Outcome {
    pub fn class(&self) -> String {
        match self {
            Outcome::Ok => "ok".into(),
            Outcome::OkStyle(true) => "ok-automatic".into(),
            Outcome::OkStyle(false) => "ok-manual".into(),
            Outcome::Protocol => "protocol-error".into(),
            Outcome::Bus(Some(_)) => "bus-error".into(),
            Outcome::Bus(None) => "bus-error-not-the-injected-one".into(),
            Outcome::Starved => "starved".into(),
            Outcome::Panic(_) => "panic".into(),
        }
    }
}

fn classify_err(e: &SignError) -> Outcome {
    match e {
        SignError::UnexpectedResponse { .. } => Outcome::Protocol,
        SignError::Bus { .. } => {
            // walk the source chain: the marker may sit under a wrapping error (FrameError::Io)
            let mut cur: Option<&(dyn Error + 'static)> = e.source();
            let mut depth = 0;
            while let Some(c) = cur {
                let txt = c.to_string();
                if txt == STARVED {
                    return Outcome::Starved;
                }
                if let Some(pos) = txt.find(BUS_MARK) {
                    return Outcome::Bus(txt[pos + BUS_MARK.len()..].trim().trim_start_matches('#').parse().ok());
                }
                cur = c.source();
                depth += 1;
                if depth > 8 {
                    break;
                }
            }
            Outcome::Bus(None)
        }
        _ => Outcome::Bus(None),
    }
}

pub struct RunResult {
    pub sent: Vec<Message<'static>>,
    pub outcome: Outcome,
    pub panic: Option<Panicked>,
}

thread_local! {
    /// An operation (with its own reply script) that `run_real` performs on the same `Sign` object before the
    /// operation under test: a controller that carries anything over from one call to the next (a cached flip
    /// style, a counter) then behaves differently from the memoryless reference. Set per job by C10/C11.
    pub static PRELUDE: RefCell<Option<(Op, Vec<Rep>)>> = const { RefCell::new(None) };
}

pub fn set_prelude(p: Option<(Op, Vec<Rep>)>) {
    PRELUDE.with(|x| *x.borrow_mut() = p);
}

fn do_op(sign: &Sign, op: Op, page_lists: &[Vec<Page<'static>>]) -> Result<Outcome, SignError> {
    match op {
        Op::Configure => sign.configure().map(|_| Outcome::Ok),
        Op::ConfigureIfNeeded => sign.configure_if_needed().map(|_| Outcome::Ok),
        Op::SendPages(i) => sign.send_pages(page_lists[i].iter()).map(|s| Outcome::OkStyle(s == PageFlipStyle::Automatic)),
        Op::Show => sign.show_loaded_page().map(|_| Outcome::Ok),
        Op::LoadNext => sign.load_next_page().map(|_| Outcome::Ok),
        Op::ShutDown => sign.shut_down().map(|_| Outcome::Ok),
    }
}

/// Runs one controller operation of the REAL `Sign` against a scripted bus (after the prelude operation, if set).
pub fn run_real(op: Op, own_addr: u16, foreign: u16, typ: SignType, page_lists: &[Vec<Page<'static>>], script: &[Rep]) -> RunResult {
    let prelude = PRELUDE.with(|x| x.borrow().clone());
    let first = prelude.as_ref().map(|(_, s)| s.clone()).unwrap_or_else(|| script.to_vec());
    let bus = Rc::new(RefCell::new(ScriptBus { own_addr, foreign, script: first, sent: vec![], starved: false, calls_after_end: 0 }));
    let dynbus: Rc<RefCell<dyn SignBus>> = bus.clone();
    let r = catch(|| {
        let sign = Sign::new(dynbus, Address(own_addr), typ);
        if let Some((pop, _)) = &prelude {
            let _ = do_op(&sign, *pop, page_lists);
            // from here on the bus answers from the script under test and records afresh
            let mut b = bus.borrow_mut();
            b.script = script.to_vec();
            b.sent.clear();
            b.starved = false;
            b.calls_after_end = 0;
        }
        do_op(&sign, op, page_lists)
    });
    let (outcome, panic) = match r {
        Ok(Ok(o)) => (o, None),
        Ok(Err(e)) => (classify_err(&e), None),
        Err(p) => (Outcome::Panic(p.class()), Some(p)),
    };
    let b = bus.borrow();
    let starved = b.starved;
    let sent = b.sent.clone();
    drop(b);
    let outcome = if starved && !matches!(outcome, Outcome::Panic(_)) { Outcome::Starved } else { outcome };
    RunResult { sent, outcome, panic }
}

/// The reply script under which `op` runs to its documented successful end (`automatic`: the closing query of
/// send_pages is answered 'showing pages'), built by asking the reference controller what it sends next.
pub fn cooperative_script(op: Op, own_addr: u16, foreign: u16, typ: SignType, page_lists: &[Vec<Page<'static>>], automatic: bool) -> Vec<Rep> {
    let st = |s: State| Rep::Report { own: true, state: STATES.iter().position(|x| x.0 == s).unwrap() };
    let ack = |o: Operation| Rep::Ack { own: true, op: OPS.iter().position(|x| x.0 == o).unwrap() };
    let mut script: Vec<Rep> = vec![];
    for _ in 0..100_000 {
        let (sent, outcome, _) = ref_run(op, own_addr, foreign, typ, page_lists, &script);
        if outcome != Outcome::Starved {
            break;
        }
        let last = sent.last().unwrap();
        let prev_request = sent.iter().rev().find_map(|m| if let Message::RequestOperation(_, o) = m { Some(*o) } else { None });
        let after_count = sent.len() >= 2 && matches!(sent[sent.len() - 2], Message::DataChunksSent(_));
        let after_complete = sent.len() >= 2 && matches!(sent[sent.len() - 2], Message::PixelsComplete(_));
        let hellos = sent.iter().filter(|m| matches!(m, Message::Hello(_))).count();
        let queries = sent.iter().filter(|m| matches!(m, Message::QueryState(_))).count();
        let r = match last {
            Message::Hello(_) => match (op, hellos) {
                (Op::ConfigureIfNeeded, 1) => st(State::Unconfigured),
                _ => st(State::Unconfigured),
            },
            Message::RequestOperation(_, o) => ack(*o),
            Message::QueryState(_) if after_count => st(if prev_request == Some(Operation::ReceiveConfig) { State::ConfigReceived } else { State::PixelsReceived }),
            Message::QueryState(_) if after_complete => st(if automatic { State::ShowingPages } else { State::PageLoaded }),
            Message::QueryState(_) => match (op, queries) {
                (Op::Show, 1) => st(State::PageLoaded),
                (Op::Show, _) => st(State::PageShown),
                (Op::LoadNext, 1) => st(State::PageShown),
                (Op::LoadNext, _) => st(State::PageLoaded),
                _ => st(State::PageLoaded),
            },
            _ => Rep::Silent,
        };
        script.push(r);
    }
    script
}

// ---------------------------------------------------------------------------------------------------------
// Reference controller automaton (from the documented protocol)

enum Stop {
    Protocol,
    Bus(usize),
    Starved,
}

struct RefCtl<'s> {
    own: Address,
    own_addr: u16,
    foreign: u16,
    script: &'s [Rep],
    sent: Vec<Message<'static>>,
}

impl RefCtl<'_> {
    fn send(&mut self, m: Message<'static>) -> Result<Option<Message<'static>>, Stop> {
        let idx = self.sent.len();
        self.sent.push(m);
        match self.script.get(idx) {
            None => Err(Stop::Starved),
            Some(r) => rep_to_reply(*r, self.own_addr, self.foreign).map_err(|_| Stop::Bus(idx)),
        }
    }
    fn expect(&mut self, m: Message<'static>, want: Option<Message<'static>>) -> Result<(), Stop> {
        let r = self.send(m)?;
        if r == want {
            Ok(())
        } else {
            Err(Stop::Protocol)
        }
    }
    fn request(&mut self, op: Operation) -> Result<(), Stop> {
        let own = self.own;
        self.expect(Message::RequestOperation(own, op), Some(Message::AckOperation(own, op)))
    }
    fn hello_expect(&mut self, s: State) -> Result<(), Stop> {
        let own = self.own;
        self.expect(Message::Hello(own), Some(Message::ReportState(own, s)))
    }
    fn ensure_unconfigured(&mut self) -> Result<(), Stop> {
        let own = self.own;
        let r = self.send(Message::Hello(own))?;
        if r == Some(Message::ReportState(own, State::Unconfigured)) {
            return Ok(());
        }
        if r == Some(Message::ReportState(own, State::ReadyToReset)) {
            self.request(Operation::FinishReset)?;
            return self.hello_expect(State::Unconfigured);
        }
        self.request(Operation::StartReset)?;
        self.hello_expect(State::ReadyToReset)?;
        self.request(Operation::FinishReset)?;
        self.hello_expect(State::Unconfigured)
    }
    fn transfer(&mut self, op: Operation, items: &[&[u8]], received: State, failed: State) -> Result<(), Stop> {
        let own = self.own;
        let mut attempts = 1;
        loop {
            self.request(op)?;
            let mut n: u32 = 0;
            for item in items {
                let mut off: u32 = 0;
                for chunk in item.chunks(16) {
                    self.expect(Message::SendData(Offset(off as u16), Data::try_new(chunk.to_vec()).unwrap()), None)?;
                    off += 16;
                    n += 1;
                }
            }
            self.expect(Message::DataChunksSent(ChunkCount(n as u16)), None)?;
            let r = self.send(Message::QueryState(own))?;
            if r == Some(Message::ReportState(own, failed)) && attempts < 3 {
                attempts += 1;
                continue;
            }
            return if r == Some(Message::ReportState(own, received)) { Ok(()) } else { Err(Stop::Protocol) };
        }
    }
    fn configure(&mut self, typ: SignType) -> Result<(), Stop> {
        self.ensure_unconfigured()?;
        let block = crate::refmodel::SIGN_TYPES.iter().find(|e| e.0 == typ).map(|e| e.0.to_bytes()).unwrap();
        self.transfer(Operation::ReceiveConfig, &[block], State::ConfigReceived, State::ConfigFailed)
    }
    fn switch(&mut self, target: State, trigger: State, op: Operation) -> Result<(), Stop> {
        let own = self.own;
        loop {
            let r = self.send(Message::QueryState(own))?;
            match r {
                Some(Message::ReportState(a, s)) if a == own => {
                    if s == State::ShowingPages || s == target {
                        return Ok(());
                    } else if s == trigger {
                        self.request(op)?;
                    } else if s == State::PageLoadInProgress || s == State::PageShowInProgress {
                        // keep polling
                    } else {
                        return Err(Stop::Protocol);
                    }
                }
                _ => return Err(Stop::Protocol),
            }
        }
    }
}

/// Expected conversation and outcome of `op` for a complete reply script.
/// The third component is an alternative outcome the statement also allows (a documented don't-care), if any.
pub fn ref_run(op: Op, own_addr: u16, foreign: u16, typ: SignType, page_lists: &[Vec<Page<'static>>], script: &[Rep]) -> (Vec<Message<'static>>, Outcome, Option<Outcome>) {
    let alt: std::cell::Cell<Option<Outcome>> = std::cell::Cell::new(None);
    let mut c = RefCtl { own: Address(own_addr), own_addr, foreign, script, sent: vec![] };
    let own = c.own;
    let r: Result<Outcome, Stop> = (|| match op {
        Op::Configure => c.configure(typ).map(|_| Outcome::Ok),
        Op::ConfigureIfNeeded => {
            let r = c.send(Message::Hello(own))?;
            let ready = match r {
                Some(Message::ReportState(a, s)) if a == own => matches!(s, State::ConfigReceived | State::ShowingPages | State::PageLoaded | State::PageShowInProgress | State::PageShown | State::PageLoadInProgress),
                _ => false,
            };
            if ready {
                Ok(Outcome::Ok)
            } else {
                c.configure(typ).map(|_| Outcome::Ok)
            }
        }
        Op::SendPages(i) => {
            let items: Vec<&[u8]> = page_lists[i].iter().map(|p| p.as_bytes()).collect();
            c.transfer(Operation::ReceivePixels, &items, State::PixelsReceived, State::PixelsFailed)?;
            c.expect(Message::PixelsComplete(own), None)?;
            let r = c.send(Message::QueryState(own))?;
            // The closing query tells the flip style: 'showing pages' from the own address means automatic, 'page
            // loaded' means manual. For any other answer the documentation names both "manual" (what is left when
            // the sign is not flipping by itself) and "unexpected response": either is accepted, nothing is sent after.
            if r != Some(Message::ReportState(own, State::ShowingPages)) && r != Some(Message::ReportState(own, State::PageLoaded)) {
                alt.set(Some(Outcome::Protocol));
            }
            Ok(Outcome::OkStyle(r == Some(Message::ReportState(own, State::ShowingPages))))
        }
        Op::Show => c.switch(State::PageShown, State::PageLoaded, Operation::ShowLoadedPage).map(|_| Outcome::Ok),
        Op::LoadNext => c.switch(State::PageLoaded, State::PageShown, Operation::LoadNextPage).map(|_| Outcome::Ok),
        Op::ShutDown => c.expect(Message::Goodbye(own), None).map(|_| Outcome::Ok),
    })();
    let outcome = match r {
        Ok(o) => o,
        Err(Stop::Protocol) => Outcome::Protocol,
        Err(Stop::Bus(i)) => Outcome::Bus(Some(i)),
        Err(Stop::Starved) => Outcome::Starved,
    };
    let alt = if matches!(outcome, Outcome::OkStyle(false)) { alt.take() } else { None };
    (c.sent, outcome, alt)
}

pub fn is_foreign(r: &Rep) -> bool {
    matches!(r, Rep::Report { own: false, .. } | Rep::Ack { own: false, .. })
}

// ---------------------------------------------------------------------------------------------------------
// C11 invariants over one real conversation

fn expects_no_reply(m: &Message<'_>) -> bool {
    matches!(m, Message::SendData(..) | Message::DataChunksSent(..) | Message::PixelsComplete(..) | Message::Goodbye(..))
}

pub fn addr_of(m: &Message<'_>) -> Option<u16> {
    match m {
        Message::Hello(a) | Message::QueryState(a) | Message::PixelsComplete(a) | Message::Goodbye(a) => Some(a.0),
        Message::RequestOperation(a, _) | Message::ReportState(a, _) | Message::AckOperation(a, _) => Some(a.0),
        Message::Unknown(f) => Some(f.address().0),
        _ => None,
    }
}

/// Returns (clause, class, detail) for every violated invariant I1..I4 of C11.
pub fn invariants(op: Op, own_addr: u16, foreign: u16, script: &[Rep], run: &RunResult) -> Vec<(&'static str, String, String)> {
    let mut out = vec![];
    let own = Address(own_addr);
    let sent = &run.sent;
    let reply_at = |i: usize| -> Option<Result<Option<Message<'static>>, u8>> { script.get(i).map(|r| rep_to_reply(*r, own_addr, foreign)) };
    let conv = || {
        sent.iter().enumerate().map(|(i, m)| format!("{} -> {}", msg_str(m), script.get(i).map(|r| rep_str(*r)).unwrap_or_else(|| "(script end)".into()))).collect::<Vec<_>>().join(" | ")
    };
    let opname = format!("{:?}", op).split('(').next().unwrap().to_string();
    // I1: success only after a confirmed final transfer
    if matches!(op, Op::Configure | Op::ConfigureIfNeeded | Op::SendPages(_)) && matches!(run.outcome, Outcome::Ok | Outcome::OkStyle(_)) {
        if let Some(k) = sent.iter().rposition(|m| matches!(m, Message::DataChunksSent(_))) {
            let want_state = if matches!(op, Op::SendPages(_)) { State::PixelsReceived } else { State::ConfigReceived };
            let ok = sent.get(k + 1) == Some(&Message::QueryState(own)) && reply_at(k + 1) == Some(Ok(Some(Message::ReportState(own, want_state))));
            if !ok {
                out.push(("I1-no-unconfirmed-success", opname.clone(), format!("returned success but the report concluding the final transfer was {:?}: {}", script.get(k + 1).map(|r| rep_str(*r)), conv())));
            }
        } else if !matches!(op, Op::ConfigureIfNeeded) {
            out.push(("I1-no-unconfirmed-success", format!("{}:no-transfer", opname), format!("returned success without any transfer: {}", conv())));
        }
    }
    // I2: fail-stop at the context-free strict points
    for (i, m) in sent.iter().enumerate() {
        let Some(rep) = reply_at(i) else { break };
        let last = i + 1 == sent.len();
        match rep {
            Err(_) => {
                if !last {
                    out.push(("I2-fail-stop", format!("{}:sent-after-bus-error", opname), format!("message #{} was sent after the bus error at #{}: {}", i + 1, i, conv())));
                }
                if run.outcome != Outcome::Bus(Some(i)) {
                    out.push(("I2-fail-stop", format!("{}:bus-error-not-returned:{}", opname, run.outcome.class()), format!("bus error at #{} but the call returned {}: {}", i, run.outcome.class(), conv())));
                }
                break;
            }
            Ok(r) => {
                let disallowed = if expects_no_reply(m) {
                    r.is_some()
                } else if let Message::RequestOperation(_, o) = m {
                    r != Some(Message::AckOperation(own, *o))
                } else {
                    false
                };
                if disallowed {
                    let what = if expects_no_reply(m) { crate::refmodel::kind_name(m).to_string() } else { "RequestOperation".to_string() };
                    if !last {
                        out.push(("I2-fail-stop", format!("{}:sent-after-disallowed-reply-to-{}", opname, what), format!("reply {} to {} is not allowed, yet message #{} followed: {}", rep_str(script[i]), msg_str(m), i + 1, conv())));
                    }
                    if run.outcome != Outcome::Protocol {
                        out.push(("I2-fail-stop", format!("{}:disallowed-reply-to-{}-gives-{}", opname, what, run.outcome.class()), format!("reply {} to {} is not allowed, yet the call returned {}: {}", rep_str(script[i]), msg_str(m), run.outcome.class(), conv())));
                    }
                    break;
                }
            }
        }
    }
    // I6: the two context-dependent points that the documented reset handshake fixes: after an acknowledged start-reset
    // the sign must say ready-to-reset, after an acknowledged finish-reset it must say unconfigured; anything else is a
    // reply the protocol does not allow there. I7: after the chunk count, the state query must be answered by the
    // own-address received / failed state of that transfer.
    for i in 1..sent.len() {
        let Some(Ok(rep_i)) = reply_at(i) else { continue };
        let prev_acked = |op: Operation| sent[i - 1] == Message::RequestOperation(own, op) && reply_at(i - 1) == Some(Ok(Some(Message::AckOperation(own, op))));
        let last = i + 1 == sent.len();
        let mut expected: Option<(Vec<Message<'static>>, &'static str)> = None;
        if sent[i] == Message::Hello(own) && prev_acked(Operation::StartReset) {
            expected = Some((vec![Message::ReportState(own, State::ReadyToReset)], "hello-after-start-reset"));
        } else if sent[i] == Message::Hello(own) && prev_acked(Operation::FinishReset) {
            expected = Some((vec![Message::ReportState(own, State::Unconfigured)], "hello-after-finish-reset"));
        } else if sent[i] == Message::QueryState(own) && matches!(sent[i - 1], Message::DataChunksSent(_)) {
            let is_config = sent[..i].iter().rev().find_map(|m| if let Message::RequestOperation(_, o) = m { Some(*o == Operation::ReceiveConfig) } else { None }).unwrap_or(false);
            let (r, f) = if is_config { (State::ConfigReceived, State::ConfigFailed) } else { (State::PixelsReceived, State::PixelsFailed) };
            expected = Some((vec![Message::ReportState(own, r), Message::ReportState(own, f)], "query-after-count"));
        }
        if let Some((allowed, what)) = expected {
            if !rep_i.as_ref().map(|r| allowed.contains(r)).unwrap_or(false) {
                if !last {
                    out.push(("I6-fail-stop-in-context", format!("{}:sent-after-disallowed-reply-to-{}", opname, what), format!("reply {} to message #{} ({}) is not allowed there, yet message #{} followed: {}", rep_str(script[i]), i, what, i + 1, conv())));
                } else if run.outcome != Outcome::Protocol {
                    out.push(("I6-fail-stop-in-context", format!("{}:disallowed-reply-to-{}-gives-{}", opname, what, run.outcome.class()), format!("reply {} to message #{} ({}) is not allowed there, yet the call returned {}: {}", rep_str(script[i]), i, what, run.outcome.class(), conv())));
                }
                break;
            }
        }
    }
    // I3: at most three transfer attempts, retry only after the matching 'failed' report from own address
    let reqs: Vec<usize> = sent.iter().enumerate().filter(|(_, m)| matches!(m, Message::RequestOperation(_, Operation::ReceiveConfig | Operation::ReceivePixels))).map(|(i, _)| i).collect();
    if reqs.len() > 3 {
        out.push(("I3-bounded-retries", format!("{}:{}-attempts", opname, reqs.len()), format!("{} transfer attempts in one call: {}", reqs.len(), conv())));
    }
    for w in reqs.windows(2) {
        let j = w[1];
        let failed = match sent[j] {
            Message::RequestOperation(_, Operation::ReceiveConfig) => State::ConfigFailed,
            _ => State::PixelsFailed,
        };
        let ok = j >= 1 && sent[j - 1] == Message::QueryState(own) && reply_at(j - 1) == Some(Ok(Some(Message::ReportState(own, failed))));
        if !ok {
            out.push(("I3-bounded-retries", format!("{}:retry-without-failed-report", opname), format!("attempt starting at #{} was not preceded by the sign's own 'failed' report (saw {:?}): {}", j, script.get(j.wrapping_sub(1)).map(|r| rep_str(*r)), conv())));
        }
    }
    // I4: own address on every addressed message
    for (i, m) in sent.iter().enumerate() {
        if let Some(a) = addr_of(m) {
            if a != own_addr {
                out.push(("I4-own-address", opname.clone(), format!("message #{} {} carries address {:04X}, own is {:04X}", i, msg_str(m), a, own_addr)));
                break;
            }
        }
    }
    out
}

/// I5 (metamorphic): a reply carrying another address must be treated like an unrelated frame.
pub fn foreign_to_unknown(script: &[Rep]) -> Option<Vec<Rep>> {
    let mut changed = false;
    let v = script
        .iter()
        .map(|r| match r {
            Rep::Report { own: false, .. } | Rep::Ack { own: false, .. } => {
                changed = true;
                Rep::Unknown
            }
            x => *x,
        })
        .collect();
    if changed {
        Some(v)
    } else {
        None
    }
}

// ---------------------------------------------------------------------------------------------------------
// A responding bus for C09: acknowledges, answers post-transfer queries from a failure schedule.

#[derive(Debug)]
pub struct RespBus {
    pub own: Address,
    /// outcomes of successive transfers: true = report 'failed'
    pub schedule: Vec<bool>,
    pub transfers_seen: usize,
    pub in_transfer: Option<Operation>,
    pub count_seen: bool,
    pub sent: Vec<Message<'static>>,
    pub replies: Vec<Option<Message<'static>>>,
    pub keep_data: bool,
    /// (n, variant): the n-th receive request (1-based) is NOT acknowledged properly:
    /// 0 = silence, 1 = acknowledgement of another operation, 2 = acknowledgement from another address, 3 = a state report,
    /// 4 / 5 = silence, and a state query that follows before any count is answered with the matching / the other
    /// 'in progress' state (a sign that acted on the request although its acknowledgement was lost)
    pub nack: Option<(usize, u8)>,
    pub nack_fired: Option<u8>,
    pub requests_seen: usize,
    /// answer the j-th data chunk (0-based, counted over the whole conversation) with a state report
    pub stray_reply_to_chunk: Option<usize>,
    pub chunks_seen: usize,
}

impl SignBus for RespBus {
    fn process_message<'a>(&mut self, message: Message<'_>) -> Result<Option<Message<'a>>, Box<dyn Error + Send + Sync>> {
        let own = self.own;
        let reply = match &message {
            Message::Hello(a) if *a == own => Some(Message::ReportState(own, State::Unconfigured)),
            Message::RequestOperation(a, op) if *a == own => {
                let mut reply = Some(Message::AckOperation(own, *op));
                if matches!(op, Operation::ReceiveConfig | Operation::ReceivePixels) {
                    self.in_transfer = Some(*op);
                    self.count_seen = false;
                    self.requests_seen += 1;
                    if let Some((n, v)) = self.nack {
                        if n == self.requests_seen {
                            self.nack_fired = Some(v);
                            reply = match v {
                                0 | 4 | 5 => None,
                                1 => Some(Message::AckOperation(own, Operation::StartReset)),
                                2 => Some(Message::AckOperation(Address(own.0 ^ 0x0100), *op)),
                                _ => Some(Message::ReportState(own, State::ConfigInProgress)),
                            };
                        }
                    }
                }
                reply
            }
            Message::SendData(..) => {
                let j = self.chunks_seen;
                self.chunks_seen += 1;
                if self.stray_reply_to_chunk == Some(j) {
                    Some(Message::ReportState(own, State::PixelsInProgress))
                } else {
                    None
                }
            }
            Message::DataChunksSent(_) => {
                self.count_seen = true;
                None
            }
            Message::QueryState(a) if *a == own => match (self.in_transfer, self.count_seen) {
                (Some(op), true) => {
                    let fail = self.schedule.get(self.transfers_seen).copied().unwrap_or(false);
                    self.transfers_seen += 1;
                    self.in_transfer = None;
                    let st = match (op, fail) {
                        (Operation::ReceiveConfig, true) => State::ConfigFailed,
                        (Operation::ReceiveConfig, false) => State::ConfigReceived,
                        (_, true) => State::PixelsFailed,
                        (_, false) => State::PixelsReceived,
                    };
                    Some(Message::ReportState(own, st))
                }
                (Some(op), false) if matches!(self.nack_fired, Some(4) | Some(5)) => {
                    let matching = self.nack_fired == Some(4);
                    let st = if (op == Operation::ReceiveConfig) == matching { State::ConfigInProgress } else { State::PixelsInProgress };
                    Some(Message::ReportState(own, st))
                }
                _ => Some(Message::ReportState(own, State::PageLoaded)),
            },
            _ => None,
        };
        if self.keep_data {
            self.sent.push(crate::refmodel::own(&message));
            self.replies.push(reply.clone());
        }
        Ok(reply)
    }
}

/// C09 trace predicate. `items` = the byte strings that had to be transferred (one per page / the config block).
pub fn transfer_predicate(sent: &[Message<'static>], replies: &[Option<Message<'static>>], own: Address, op: Operation, items: &[&[u8]], attempts_expected: Option<usize>) -> Vec<(&'static str, String, String)> {
    let mut out = vec![];
    let opn = format!("{:?}", op);
    // the acknowledgement of the matching request comes first: a request that was not acknowledged must not be
    // followed by data or a count before the next request (whether the controller gives up or asks again is not
    // this property's business); the transfer attempts judged below are the acknowledged requests
    let reqs: Vec<usize> = sent.iter().enumerate().filter(|(_, m)| **m == Message::RequestOperation(own, op)).map(|(i, _)| i).collect();
    let mut starts: Vec<usize> = vec![];
    for (k, &i) in reqs.iter().enumerate() {
        if replies.get(i).cloned().flatten() == Some(Message::AckOperation(own, op)) {
            starts.push(i);
            continue;
        }
        let end = reqs.get(k + 1).copied().unwrap_or(sent.len());
        if sent[i + 1..end].iter().any(|x| matches!(x, Message::SendData(..) | Message::DataChunksSent(..))) {
            out.push(("request-acknowledged-first", format!("{}:attempt-{}", opn, if k == 0 { "1" } else { "2+" }), format!("attempt {}: the receive request was answered with {:?}, not with its acknowledgement, yet data/count messages followed", k + 1, replies.get(i).cloned().flatten().map(|x| msg_str(&x)))));
            return out;
        }
    }
    if starts.is_empty() && !reqs.is_empty() {
        return out; // no request was acknowledged and nothing was transferred: nothing more to judge
    }
    // how often a transfer is attempted is C10/C11's business (the statement here quantifies over the attempts that
    // are made, it does not fix their number): no clause on the count
    let _ = attempts_expected;
    if let Some(&first) = starts.first() {
        if sent[..first].iter().any(|m| matches!(m, Message::SendData(..) | Message::DataChunksSent(..))) {
            out.push(("request-acknowledged-first", opn.clone(), "data or count sent before the receive request".into()));
        }
    } else {
        if sent.iter().any(|m| matches!(m, Message::SendData(..))) {
            out.push(("request-acknowledged-first", format!("{}:no-request", opn), "data sent without any receive request".into()));
        }
        return out;
    }
    for (ai, &s) in starts.iter().enumerate() {
        let _ = ai;
        let end = reqs.iter().copied().find(|&r| r > s).unwrap_or(sent.len());
        let seg = &sent[s + 1..end];
        // chunks, then count, then query
        let mut item_idx = 0usize;
        let mut pos_in_item = 0usize;
        let mut chunks = 0u32;
        let mut k = 0usize;
        let total_items_nonempty: Vec<&[u8]> = items.iter().copied().filter(|x| !x.is_empty()).collect();
        while k < seg.len() {
            if let Message::SendData(Offset(off), d) = &seg[k] {
                let d = d.get();
                if item_idx >= total_items_nonempty.len() {
                    out.push(("complete-and-ordered", format!("{}:extra-chunk", opn), format!("attempt {}: chunk #{} (offset {}) beyond the last item", ai + 1, chunks, off)));
                    return out;
                }
                let item = total_items_nonempty[item_idx];
                if *off as usize != pos_in_item % 65536 || (pos_in_item % 16) != 0 {
                    out.push(("offsets-0-16-32", format!("{}:item-size-class-{}", opn, if item.len() > 4096 { "large" } else { "small" }), format!("attempt {}: chunk #{} of item {} has offset {}, expected {}", ai + 1, chunks, item_idx, off, pos_in_item)));
                    return out;
                }
                if d.len() > 16 || d.is_empty() {
                    out.push(("chunks-at-most-16-bytes", opn.clone(), format!("attempt {}: chunk of {} bytes", ai + 1, d.len())));
                    return out;
                }
                if pos_in_item + d.len() > item.len() || &item[pos_in_item..pos_in_item + d.len()] != d.as_ref() {
                    out.push(("concatenation-equals-item", format!("{}:item-size-class-{}", opn, if item.len() > 4096 { "large" } else { "small" }), format!("attempt {}: chunk at offset {} of item {} ({} bytes) does not carry the item's bytes", ai + 1, off, item_idx, item.len())));
                    return out;
                }
                pos_in_item += d.len();
                if pos_in_item == item.len() {
                    item_idx += 1;
                    pos_in_item = 0;
                } else if d.len() != 16 {
                    out.push(("concatenation-equals-item", format!("{}:short-chunk-mid-item", opn), format!("attempt {}: a {}-byte chunk in the middle of item {}", ai + 1, d.len(), item_idx)));
                    return out;
                }
                chunks += 1;
                k += 1;
            } else {
                break;
            }
        }
        if item_idx != total_items_nonempty.len() || pos_in_item != 0 {
            out.push(("concatenation-equals-item", format!("{}:incomplete", opn), format!("attempt {}: transfer stopped in item {} at byte {} of {} items", ai + 1, item_idx, pos_in_item, total_items_nonempty.len())));
            return out;
        }
        match seg.get(k) {
            Some(Message::DataChunksSent(ChunkCount(c))) => {
                if *c as u32 != chunks {
                    out.push(("count-equals-chunks", format!("{}:{}-items", opn, items.len().min(3)), format!("attempt {}: announced {} chunks, sent {}", ai + 1, c, chunks)));
                    return out;
                }
            }
            other => {
                out.push(("count-equals-chunks", format!("{}:no-count", opn), format!("attempt {}: after the chunks came {:?} instead of the chunk count", ai + 1, other.map(|m| msg_str(m)))));
                return out;
            }
        }
        match seg.get(k + 1) {
            Some(m) if *m == Message::QueryState(own) => {}
            other => {
                out.push(("query-after-count", opn.clone(), format!("attempt {}: after the count came {:?} instead of the state query", ai + 1, other.map(|m| msg_str(m)))));
                return out;
            }
        }
        // nothing but the tail may follow inside this attempt's segment (next attempt starts at the next request)
        if ai + 1 < starts.len() && seg.len() != k + 2 {
            out.push(("query-after-count", format!("{}:extra-messages-before-retry", opn), format!("attempt {}: {} extra messages before the retry", ai + 1, seg.len() - k - 2)));
            return out;
        }
    }
    out
}
