//! Explicit-state systems over the real VirtualSign / VirtualSignBus, with alphabets R1/R2/R3 (DESIGN §4 C12).

use flipdot_core::{Address, ChunkCount, Data, Frame, Message, MsgType, Offset, Operation, PageFlipStyle, SignBus, SignType, State};
use flipdot_testing::{VirtualSign, VirtualSignBus};
use serde_json::{json, Value};

use crate::bfs::{Step, System};
use crate::refmodel::{kind_name, msg_json, msg_str, own, padded, OPS};
use crate::refsign::{Open, PagesRule, RefSign};
use crate::util::catch;

pub const OWN: u16 = 3;
pub const FOREIGN: u16 = 5;

// vacuity tags
pub const T_ACK: u64 = 1 << 0; // ..5 : op acked
pub const T_REFUSED: u64 = 1 << 6; // ..11: op refused
pub const T_STATE: u64 = 1 << 12; // ..24: state reached
pub const T_PAGE_STORED: u64 = 1 << 26;
pub const T_RECEIVED: u64 = 1 << 27;
pub const T_FAILED: u64 = 1 << 28;
pub const T_OPEN1: u64 = 1 << 29;
pub const T_OPEN2: u64 = 1 << 30;
pub const T_BADPAGE_DROPPED: u64 = 1 << 31;
pub const T_TWO_RECEIVING: u64 = 1 << 32;
pub const T_ABSENT_SILENT: u64 = 1 << 33;
pub const T_REPLY_SECOND_SIGN: u64 = 1 << 34;

pub fn state_index(s: State) -> u64 {
    crate::refmodel::STATES.iter().position(|x| x.0 == s).unwrap() as u64
}
pub fn op_index(o: Operation) -> u64 {
    OPS.iter().position(|x| x.0 == o).unwrap() as u64
}

fn sd(off: u16, data: Vec<u8>) -> Message<'static> {
    Message::SendData(Offset(off), Data::try_new(data).unwrap())
}

/// Control messages for own and foreign address, plus sign-originated and unknown messages.
pub fn sigma_ctl(addrs: &[u16]) -> Vec<Message<'static>> {
    let mut v = vec![];
    for &a in addrs {
        let a = Address(a);
        v.push(Message::Hello(a));
        v.push(Message::QueryState(a));
        for o in OPS.iter() {
            v.push(Message::RequestOperation(a, o.0));
        }
        v.push(Message::PixelsComplete(a));
        v.push(Message::Goodbye(a));
    }
    let a0 = Address(addrs[0]);
    v.push(Message::ReportState(a0, State::PageLoaded));
    v.push(Message::ReportState(a0, State::Unconfigured));
    v.push(Message::AckOperation(a0, Operation::ReceivePixels));
    v.push(Message::AckOperation(a0, Operation::StartReset));
    v.push(Message::Unknown(Frame::new(a0, MsgType(7), Data::try_new(vec![1u8, 2]).unwrap())));
    v.push(Message::Unknown(Frame::new(a0, MsgType(2), Data::try_new(vec![0x77u8]).unwrap())));
    v
}

pub fn sigma_cnt(counts: &[u16]) -> Vec<Message<'static>> {
    counts.iter().map(|&c| Message::DataChunksSent(ChunkCount(c))).collect()
}

/// A 16-byte Max3000-family block for a custom size w x h (unknown id 0xEE unless `id` given).
pub fn custom_block(w: u32, h: u32, id: u8) -> Vec<u8> {
    let mut b = vec![0u8; 16];
    b[0] = 0x04;
    b[1] = id;
    b[4] = h as u8;
    let mut rest = w;
    for i in 5..9 {
        let part = rest.min(255);
        b[i] = part as u8;
        rest -= part;
    }
    b[9] = (((h + 7) / 8) * 8) as u8;
    b
}

pub fn horizon_block(w: u8, h: u8, id: u8) -> Vec<u8> {
    let mut b = vec![0u8; 16];
    b[0] = 0x08;
    b[1] = id;
    b[5] = h;
    b[7] = w;
    b
}

#[derive(Clone, Debug)]
pub struct Alphabet {
    pub name: String,
    pub msgs: Vec<Message<'static>>,
    /// indices of configuration-block messages that are offered only in ConfigInProgress
    pub cfg_only: Vec<bool>,
    pub max_buf: usize,
    pub max_count: u32,
    pub max_pages: usize,
    /// Whether the lock-step reference remembers the bytes of a malformed transfer until it is closed (the
    /// "assembled in arrival order" rule). Off for the alphabets with hundreds of chunk kinds or uniform chunk
    /// contents, where it multiplies the states without being able to tell two chunks apart.
    pub track_stream: bool,
}

impl Alphabet {
    fn new(name: &str, max_buf: usize, max_count: u32, max_pages: usize) -> Self {
        Alphabet { name: name.into(), msgs: vec![], cfg_only: vec![], max_buf, max_count, max_pages, track_stream: false }
    }
    fn push(&mut self, m: Message<'static>) {
        self.msgs.push(m);
        self.cfg_only.push(false);
    }
    fn extend(&mut self, ms: Vec<Message<'static>>) {
        for m in ms {
            self.push(m);
        }
    }
    fn push_cfg_only(&mut self, m: Message<'static>) {
        self.msgs.push(m);
        self.cfg_only.push(true);
    }
}

/// R1: length sweep. 12x8 custom sign (16-byte page), uniform fill so the buffer is a function of its length.
pub fn alphabet_r1(all_lengths: bool) -> Alphabet {
    let mut a = Alphabet::new(if all_lengths { "R1-all-lengths" } else { "R1-quick-lengths" }, 40, 4, 2);
    a.extend(sigma_ctl(&[OWN, FOREIGN]));
    a.extend(sigma_cnt(&[0, 1, 2, 3, 4, 5, 65535]));
    for off in [0u16, 16] {
        a.push(sd(off, custom_block(12, 8, 0xEE))); // valid family, unknown id -> 16-byte pages
        a.push(sd(off, {
            let mut b = custom_block(12, 8, 0xEE);
            b[0] = 0x05; // invalid family
            b
        }));
        a.push(sd(off, custom_block(0, 8, 0xEE))); // zero width
        a.push(sd(off, custom_block(1, 1, 0xEE))); // the smallest sign: 1 x 1, one 16-byte page
        a.push(sd(off, custom_block(12, 0, 0xEE))); // zero height (a 16-byte buffer would have the padded size of 12 x 0)
        a.push(sd(off, {
            let mut b = custom_block(12, 8, 0xEE);
            b[5] = 0xFF;
            b[6] = 0xFF;
            b[7] = 0x02; // Max3000 width bytes summing to 524 (> 255)
            b
        }));
    }
    let lens: Vec<usize> = if all_lengths { (0..=255).collect() } else { vec![0, 1, 2, 15, 16, 17, 32, 255] };
    for off in [0u16, 16] {
        for &l in &lens {
            a.push(sd(off, vec![0x11; l]));
        }
    }
    a
}

/// R2: order/content. 14x9 custom sign (32-byte page) and 12x8 (16-byte page); coloured chunks.
pub fn alphabet_r2() -> Alphabet {
    let mut a = Alphabet::new("R2-order", 48, 4, 2);
    a.track_stream = true;
    a.extend(sigma_ctl(&[OWN, FOREIGN]));
    a.extend(sigma_cnt(&[0, 1, 2, 3, 4, 5, 65535]));
    for off in [0u16, 16] {
        a.push(sd(off, custom_block(14, 9, 0xEE)));
        a.push(sd(off, custom_block(12, 8, 0xEE)));
    }
    for off in [0u16, 16] {
        a.push(sd(off, (0..16).map(|j| 0xA0 + j as u8).collect()));
        a.push(sd(off, (0..16).map(|j| 0xB0 + j as u8).collect()));
        a.push(sd(off, (0..15).map(|j| 0xC0 + j as u8).collect()));
    }
    a
}

/// R3: one real sign type T (blocks of T and of another type offered only in ConfigInProgress).
pub fn alphabet_r3(t: SignType, other: SignType) -> Alphabet {
    let (w, h) = crate::refmodel::ref_dims(t);
    let pad = padded(w as u64, h as u64) as usize;
    let n = (pad / 16) as u16;
    let mut a = Alphabet::new(&format!("R3-{:?}", t), pad + 16, n as u32 + 1, 2);
    a.extend(sigma_ctl(&[OWN, FOREIGN]));
    let mut counts = vec![0u16, 1, n - 1, n, n + 1, 2 * n];
    counts.sort();
    counts.dedup();
    a.extend(sigma_cnt(&counts));
    a.push_cfg_only(sd(0, t.to_bytes().to_vec()));
    a.push_cfg_only(sd(0, other.to_bytes().to_vec()));
    a.push_cfg_only(sd(16, t.to_bytes().to_vec()));
    for off in [0u16, 16, 32] {
        // same content at every offset: the buffer stays a function of its length (order is R2's job)
        a.push(sd(off, (0..16).map(|j| j as u8 * 3 + 1).collect()));
    }
    a
}

/// R2 with wider bounds (thorough): more buffered bytes, more counted chunks, three stored pages.
pub fn alphabet_r2_big() -> Alphabet {
    let mut a = alphabet_r2();
    a.name = "R2-order-big".into();
    a.max_buf = 80;
    a.max_count = 6;
    a.max_pages = 3;
    a.msgs.push(Message::DataChunksSent(ChunkCount(6)));
    a.cfg_only.push(false);
    a.msgs.push(Message::DataChunksSent(ChunkCount(7)));
    a.cfg_only.push(false);
    a
}

pub fn alphabet_by_name(name: &str) -> Option<Alphabet> {
    match name {
        "R2-order-big" => Some(alphabet_r2_big()),
        "R1-all-lengths" => Some(alphabet_r1(true)),
        "R1-quick-lengths" => Some(alphabet_r1(false)),
        "R2-order" => Some(alphabet_r2()),
        _ => {
            let t = name.strip_prefix("R3-")?;
            let types = crate::refmodel::SIGN_TYPES;
            let i = types.iter().position(|e| format!("{:?}", e.0) == t)?;
            Some(alphabet_r3(types[i].0, types[(i + 1) % types.len()].0))
        }
    }
}

/// Number of bytes the derived Hash of a value feeds to a hasher: a model-independent measure of the size of
/// the real object (buffers and pages dominate). Used as a second, generous size bound so that an
/// implementation whose hidden buffers grow without limit still yields a finite search.
#[derive(Default)]
pub struct CountingHasher(pub u64);
impl std::hash::Hasher for CountingHasher {
    fn finish(&self) -> u64 {
        self.0
    }
    fn write(&mut self, bytes: &[u8]) {
        self.0 += bytes.len() as u64;
    }
}
pub fn hashed_size<T: std::hash::Hash>(v: &T) -> u64 {
    let mut h = CountingHasher::default();
    v.hash(&mut h);
    h.0
}

/// The hidden chunk counter of a real VirtualSign, read from its derived Debug output (model-independent; None if
/// the field is not there any more). Used only as a safety bound for new states, so that an implementation whose
/// counter is not reset cannot make the search run away.
pub fn hidden_chunk_counter(sign: &VirtualSign<'_>) -> Option<u64> {
    let d = format!("{:?}", sign);
    let i = d.rfind("data_chunks: ")?;
    let rest = &d[i + 13..];
    let end = rest.find(|c: char| !c.is_ascii_digit())?;
    rest[..end].parse().ok()
}

#[derive(Clone, Copy, PartialEq, Eq, Debug)]
pub enum Oracle {
    /// C12: no unwind; a count message in a receiving state ends in received/failed.
    NoPanic,
    /// C13: lock-step agreement with the reference automaton.
    LockStep,
}

pub struct SignSys {
    pub alpha: Alphabet,
    pub automatic: bool,
    pub oracle: Oracle,
}

#[derive(Clone, PartialEq, Eq, Hash, Debug)]
pub struct SignState {
    pub real: VirtualSign<'static>,
    pub model: RefSign,
}

pub fn flip(automatic: bool) -> PageFlipStyle {
    if automatic {
        PageFlipStyle::Automatic
    } else {
        PageFlipStyle::Manual
    }
}

pub fn pages_equal(real: &VirtualSign<'_>, model: &RefSign) -> bool {
    let p = real.pages();
    p.len() == model.pages.len()
        && p.iter().zip(model.pages.iter().zip(model.page_dims.iter())).all(|(rp, (mb, md))| rp.as_bytes() == &mb[..] && rp.width() == md.0 && rp.height() == md.1)
}

impl System for SignSys {
    type State = SignState;
    fn name(&self) -> String {
        format!("sign/{}/{}", self.alpha.name, if self.automatic { "automatic" } else { "manual" })
    }
    fn initial(&self) -> SignState {
        let mut model = RefSign::new(OWN, self.automatic);
        model.track_stream = self.oracle == Oracle::LockStep && self.alpha.track_stream;
        model.bounds_only = self.oracle != Oracle::LockStep;
        SignState { real: VirtualSign::new(Address(OWN), flip(self.automatic)), model }
    }
    fn n_actions(&self) -> usize {
        self.alpha.msgs.len()
    }
    fn enabled(&self, s: &SignState, a: usize) -> bool {
        !self.alpha.cfg_only[a] || s.real.state() == State::ConfigInProgress
    }
    fn within_bounds(&self, s: &SignState) -> bool {
        s.model.buf.len() <= self.alpha.max_buf
            && s.model.count <= self.alpha.max_count
            && s.model.pages.len() <= self.alpha.max_pages
            && s.real.pages().len() <= self.alpha.max_pages
            && hashed_size(&s.real) <= 256 + 2 * (self.alpha.max_buf as u64 + 64) * (self.alpha.max_pages as u64 + 2)
    }
    fn within_bounds_new(&self, s: &SignState) -> bool {
        hidden_chunk_counter(&s.real).map(|c| c <= self.alpha.max_count as u64 + 2 || c >= 65530).unwrap_or(true)
    }
    fn action_json(&self, a: usize) -> Value {
        json!(msg_str(&self.alpha.msgs[a]))
    }
    fn config_json(&self) -> Value {
        json!({"system": "sign", "alphabet": self.alpha.name, "automatic": self.automatic})
    }
    fn step(&self, s: &SignState, a: usize) -> Step<SignState> {
        let m = &self.alpha.msgs[a];
        let mut real = s.real.clone();
        let mut model = s.model.clone();
        let before = if self.oracle == Oracle::NoPanic { s.real.state() } else { model.state };
        let was_receiving = matches!(before, State::ConfigInProgress | State::PixelsInProgress);
        let r = catch(|| real.process_message(m).map(|x| own(&x)));
        let (want_reply, open, pages_rule) = model.step2(m);
        let mut viol = vec![];
        let mut tags = 0u64;
        let ctx = || format!("{} in state {:?}", msg_str(m), before);
        match r {
            Err(p) => {
                let v = ("no-panic".to_string(), p.class(), format!("{} panicked: {} at {}", ctx(), p.message, p.location));
                viol.push(if self.oracle == Oracle::NoPanic { v } else { ("lockstep-panic".to_string(), v.1, v.2) });
                return Step { next: None, violations: viol, tags, outcome: "panic" };
            }
            Ok(reply) => {
                model.adopt(open, real.state(), real.pages().len());
                match open {
                    Open::ReceivedOrFailed => tags |= T_OPEN1,
                    Open::MayFlushWhileIdle => tags |= T_OPEN2,
                    Open::ConfigReceivedOrFailed => {}
                    Open::No => {}
                }
                if let Message::RequestOperation(ad, op) = m {
                    if ad.0 == OWN {
                        tags |= if reply.is_some() { T_ACK << op_index(*op) } else { T_REFUSED << op_index(*op) };
                    }
                }
                tags |= T_STATE << state_index(real.state());
                if real.pages().len() > s.real.pages().len() {
                    tags |= T_PAGE_STORED;
                }
                if model.bad_page && !s.model.bad_page {
                    tags |= T_BADPAGE_DROPPED;
                }
                match real.state() {
                    State::ConfigReceived | State::PixelsReceived if was_receiving => tags |= T_RECEIVED,
                    State::ConfigFailed | State::PixelsFailed if was_receiving => tags |= T_FAILED,
                    _ => {}
                }
                match self.oracle {
                    Oracle::NoPanic => {
                        if let Message::DataChunksSent(_) = m {
                            let ok = match before {
                                State::ConfigInProgress => matches!(real.state(), State::ConfigReceived | State::ConfigFailed),
                                State::PixelsInProgress => matches!(real.state(), State::PixelsReceived | State::PixelsFailed),
                                _ => true,
                            };
                            if !ok {
                                viol.push(("count-ends-transfer".into(), format!("{:?}->{:?}", before, real.state()), format!("{}: the sign is now in {:?}, neither received nor failed", ctx(), real.state())));
                            }
                        }
                        // keep exploring on the implementation's own state even if the model disagrees; the shadow is used
                        // for bounds only here, so its state is never allowed to drift from the real one
                        model.state = real.state();
                        let next = SignState { real, model };
                        Step { next: Some(next), violations: viol, tags, outcome: "ok" }
                    }
                    Oracle::LockStep => {
                        let kind = match m {
                            Message::RequestOperation(_, op) => format!("Request-{:?}", op),
                            other => kind_name(other).to_string(),
                        };
                        if reply != want_reply {
                            viol.push(("reply".into(), format!("{}-in-{:?}", kind, before), format!("{}: replied {:?}, the documented machine replies {:?}", ctx(), reply.as_ref().map(|x| msg_str(x)), want_reply.as_ref().map(|x| msg_str(x)))));
                        }
                        if real.state() != model.state {
                            viol.push(("state".into(), format!("{}-in-{:?}", kind, before), format!("{}: now in {:?}, the documented machine is in {:?}", ctx(), real.state(), model.state)));
                        }
                        if model.cfg_open && real.sign_type() != model.typ && (real.sign_type().is_none() || real.sign_type() == model.prev_typ) {
                            // the implementation forgot what the failed attempt told it, or refused a zero-sized block
                            // and kept what it knew before: allowed, continue from that
                            model.typ = real.sign_type();
                        }
                        if real.sign_type() != model.typ {
                            viol.push(("sign-type".into(), format!("{}-in-{:?}", kind, before), format!("{}: sign_type {:?}, expected {:?}", ctx(), real.sign_type(), model.typ)));
                        }
                        let sizes_ok = model.cfg_open || real.pages().iter().all(|p| (p.width(), p.height()) == (model.w, model.h));
                        if let PagesRule::AdoptFromStream(stream) = &pages_rule {
                            let held: Vec<Vec<u8>> = real.pages().iter().map(|p| p.as_bytes().to_vec()).collect();
                            if real.state() == State::PixelsReceived && sizes_ok && !crate::refsign::pieces_of_stream(&held, stream) {
                                viol.push((
                                    "pages".into(),
                                    format!("{}-in-{:?}:not-assembled-in-arrival-order", kind, before),
                                    format!("{}: every chunk that arrived was counted and the transfer is reported received, but the {} stored page(s) {:?} are not consecutive pieces of the {} bytes that arrived, in arrival order", ctx(), held.len(), held.iter().map(|p| crate::util::hex(&p[..p.len().min(8)])).collect::<Vec<_>>(), stream.len()),
                                ));
                            }
                        }
                        if matches!(pages_rule, PagesRule::Adopt | PagesRule::AdoptFromStream(_)) && sizes_ok {
                            model.adopt_pages(real.pages().iter().map(|p| p.as_bytes().to_vec()).collect(), real.pages().iter().map(|p| (p.width(), p.height())).collect());
                        }
                        if pages_rule == PagesRule::Exact && !pages_equal(&real, &model) {
                            viol.push((
                                "pages".into(),
                                format!("{}-in-{:?}", kind, before),
                                format!("{}: holds {} page(s) {:?}, expected {} page(s) {:?}", ctx(), real.pages().len(), real.pages().iter().map(|p| crate::util::hex(&p.as_bytes()[..p.as_bytes().len().min(8)])).collect::<Vec<_>>(), model.pages.len(), model.pages.iter().map(|p| crate::util::hex(&p[..p.len().min(8)])).collect::<Vec<_>>()),
                            ));
                        }
                        for p in real.pages() {
                            if model.cfg_open {
                                break; // the size the sign goes by is open (don't-care 4)
                            }
                            if (p.width(), p.height()) != (model.w, model.h) || p.as_bytes().len() as u64 != padded(p.width() as u64, p.height() as u64) {
                                viol.push(("page-size-invariant".into(), format!("{}-in-{:?}", kind, before), format!("{}: stored page {}x{} ({} bytes) on a sign configured {}x{}", ctx(), p.width(), p.height(), p.as_bytes().len(), model.w, model.h)));
                                break;
                            }
                        }
                        let diverged = !viol.is_empty();
                        let outcome = if reply.is_some() { "reply" } else if real != s.real { "silent-change" } else { "ignored" };
                        Step { next: if diverged { None } else { Some(SignState { real, model }) }, violations: viol, tags, outcome }
                    }
                }
            }
        }
    }
}

// ---------------------------------------------------------------------------------------------------------
// Bus of several signs (C14, and C12 at bus level)

#[derive(Clone, Debug)]
pub struct BusConfig {
    pub name: String,
    /// (address, automatic) in insertion order
    pub signs: Vec<(u16, bool)>,
    pub absent: u16,
    pub msgs: Vec<Message<'static>>,
    pub max_buf: usize,
    pub max_count: u32,
    pub max_pages: usize,
}

pub fn ctl_for(addr: u16, reduced: bool) -> Vec<Message<'static>> {
    let a = Address(addr);
    let mut v = vec![Message::Hello(a)];
    if !reduced {
        v.push(Message::QueryState(a));
    }
    for o in OPS.iter() {
        v.push(Message::RequestOperation(a, o.0));
    }
    v.push(Message::PixelsComplete(a));
    v.push(Message::Goodbye(a));
    v
}

pub fn bus_config(name: &str) -> Option<BusConfig> {
    // name: bus-<n>-<variant>   variants: a (full alphabet, bounds 48/3/2), q (full alphabet, bounds 32/2/1), r (reduced); suffix x = reversed insertion order
    let parts: Vec<&str> = name.split('-').collect();
    if parts.len() != 3 || parts[0] != "bus" {
        return None;
    }
    let n: usize = parts[1].parse().ok()?;
    let variant = parts[2];
    let pool: [(u16, bool); 4] = [(3, false), (5, true), (0xFFFF, false), (0, true)];
    let mut signs: Vec<(u16, bool)> = pool[..n].to_vec();
    if variant.ends_with('x') {
        signs.reverse(); // other insertion order
    }
    let absent = 0x0100;
    let mut msgs = vec![];
    let reduced = variant.starts_with('r');
    for &(a, _) in &signs {
        msgs.extend(ctl_for(a, reduced));
    }
    msgs.extend(ctl_for(absent, reduced));
    if reduced {
        msgs.extend(sigma_cnt(&[0, 1]));
        msgs.push(sd(0, custom_block(12, 8, 0xEE)));
        msgs.push(sd(0, vec![0x11; 16]));
        Some(BusConfig { name: name.into(), signs, absent, msgs, max_buf: 16, max_count: 1, max_pages: 1 })
    } else {
        msgs.push(Message::ReportState(Address(signs[0].0), State::PageLoaded));
        msgs.push(Message::AckOperation(Address(signs[0].0), Operation::ReceivePixels));
        msgs.push(Message::Unknown(Frame::new(Address(signs[0].0), MsgType(9), Data::try_new(vec![0u8]).unwrap())));
        msgs.extend(sigma_cnt(&[0, 1, 2, 3]));
        for off in [0u16, 16] {
            msgs.push(sd(off, custom_block(12, 8, 0xEE)));
            msgs.push(sd(off, vec![0x11; 16]));
        }
        msgs.push(sd(0, custom_block(14, 9, 0xEE)));
        msgs.push(sd(0, vec![0x22; 15]));
        if variant.starts_with('q') {
            Some(BusConfig { name: name.into(), signs, absent, msgs, max_buf: 32, max_count: 2, max_pages: 1 })
        } else {
            Some(BusConfig { name: name.into(), signs, absent, msgs, max_buf: 48, max_count: 3, max_pages: 2 })
        }
    }
}

#[derive(Clone, Copy, PartialEq, Eq, Debug)]
pub enum BusOracle {
    Isolation,
    NoPanic,
}

pub struct BusSys {
    pub cfg: BusConfig,
    pub oracle: BusOracle,
}

#[derive(Clone, PartialEq, Eq, Hash, Debug)]
pub struct BusState {
    pub bus: VirtualSignBus<'static>,
    /// per sign: the real sign run in isolation, fed only the messages that concern it
    pub iso: Vec<VirtualSign<'static>>,
    /// per sign: shadow automaton, used only for the size bounds
    pub shadow: Vec<RefSign>,
}

pub fn receiving(s: State) -> bool {
    matches!(s, State::ConfigInProgress | State::PixelsInProgress)
}

fn addressed_to(m: &Message<'_>) -> Option<u16> {
    match m {
        Message::Hello(a) | Message::QueryState(a) | Message::PixelsComplete(a) | Message::Goodbye(a) => Some(a.0),
        Message::RequestOperation(a, _) | Message::ReportState(a, _) | Message::AckOperation(a, _) => Some(a.0),
        Message::Unknown(f) => Some(f.address().0),
        _ => None,
    }
}

pub fn obs_equal(a: &VirtualSign<'_>, b: &VirtualSign<'_>) -> bool {
    a.state() == b.state() && a.sign_type() == b.sign_type() && a.pages().len() == b.pages().len() && a.pages().iter().zip(b.pages()).all(|(x, y)| x == y)
}

impl System for BusSys {
    type State = BusState;
    fn name(&self) -> String {
        format!("{}/{:?}", self.cfg.name, self.oracle)
    }
    fn initial(&self) -> BusState {
        let signs: Vec<VirtualSign<'static>> = self.cfg.signs.iter().map(|&(a, auto)| VirtualSign::new(Address(a), flip(auto))).collect();
        BusState { bus: VirtualSignBus::new(signs.clone()), iso: signs, shadow: self.cfg.signs.iter().map(|&(a, auto)| RefSign::new(a, auto)).collect() }
    }
    fn n_actions(&self) -> usize {
        self.cfg.msgs.len()
    }
    fn within_bounds(&self, s: &BusState) -> bool {
        s.shadow.iter().all(|m| m.buf.len() <= self.cfg.max_buf && m.count <= self.cfg.max_count && m.pages.len() <= self.cfg.max_pages)
            && (0..s.iso.len()).all(|i| s.bus.sign(i).pages().len() <= self.cfg.max_pages && hashed_size(s.bus.sign(i)) <= 256 + 2 * (self.cfg.max_buf as u64 + 64) * (self.cfg.max_pages as u64 + 2))
    }
    fn within_bounds_new(&self, s: &BusState) -> bool {
        (0..s.iso.len()).all(|i| hidden_chunk_counter(s.bus.sign(i)).map(|c| c <= self.cfg.max_count as u64 + 2).unwrap_or(true))
    }
    fn action_json(&self, a: usize) -> Value {
        json!(msg_str(&self.cfg.msgs[a]))
    }
    fn config_json(&self) -> Value {
        json!({"system": "bus", "config": self.cfg.name, "oracle": format!("{:?}", self.oracle)})
    }
    fn step(&self, s: &BusState, a: usize) -> Step<BusState> {
        let m = &self.cfg.msgs[a];
        let n = s.iso.len();
        let mut bus = s.bus.clone();
        let r = catch(|| bus.process_message(m.clone()).map(|o| o.map(|x| own(&x))).map_err(|e| e.to_string()));
        let mut viol = vec![];
        let mut tags = 0u64;
        let reply = match r {
            Err(p) => {
                if self.oracle == BusOracle::NoPanic {
                    viol.push(("no-panic".to_string(), p.class(), format!("bus {} : {} panicked: {} at {}", self.cfg.name, msg_str(m), p.message, p.location)));
                }
                return Step { next: None, violations: viol, tags, outcome: "panic" };
            }
            Ok(Err(e)) => {
                viol.push(("bus-error".into(), "virtual-bus-returned-error".into(), format!("{}: {}", msg_str(m), e)));
                return Step { next: None, violations: viol, tags, outcome: "error" };
            }
            Ok(Ok(reply)) => reply,
        };
        // shadows (bounds only)
        let mut shadow = s.shadow.clone();
        for (i, sh) in shadow.iter_mut().enumerate() {
            let (_, open) = sh.step(m);
            sh.adopt(open, bus.sign(i).state(), bus.sign(i).pages().len());
            sh.state = bus.sign(i).state(); // bounds only: no drift
        }
        // isolated reference instances: fed only what concerns them
        let mut iso = s.iso.clone();
        let target = addressed_to(m);
        let mut want_reply: Option<Message<'static>> = None;
        let mut iso_panicked = false;
        for i in 0..n {
            let concerns = match target {
                Some(t) => t == self.cfg.signs[i].0,
                None => receiving(iso[i].state()),
            };
            if concerns {
                match catch(|| iso[i].process_message(m).map(|x| own(&x))) {
                    Ok(rp) => {
                        if want_reply.is_none() {
                            want_reply = rp;
                        }
                    }
                    Err(_) => iso_panicked = true,
                }
            }
        }
        if iso_panicked {
            return Step { next: None, violations: viol, tags, outcome: "panic" };
        }
        if s.iso.iter().filter(|x| receiving(x.state())).count() >= 2 {
            tags |= T_TWO_RECEIVING;
        }
        if target == Some(self.cfg.absent) && reply.is_none() {
            tags |= T_ABSENT_SILENT;
        }
        if let (Some(rp), Some(t)) = (&reply, target) {
            if n >= 2 && t == self.cfg.signs[1].0 && addressed_to(rp) == Some(t) {
                tags |= T_REPLY_SECOND_SIGN;
            }
        }
        for i in 0..n {
            tags |= T_STATE << state_index(bus.sign(i).state());
            if bus.sign(i).pages().len() > s.bus.sign(i).pages().len() {
                tags |= T_PAGE_STORED;
            }
        }
        if self.oracle == BusOracle::Isolation {
            let kind = match m {
                Message::RequestOperation(_, op) => format!("Request-{:?}", op),
                other => kind_name(other).to_string(),
            };
            if reply != want_reply {
                let cls = match (&reply, target) {
                    (Some(rp), Some(t)) if addressed_to(rp) != Some(t) => "reply-from-wrong-address",
                    (Some(_), Some(t)) if !self.cfg.signs.iter().any(|x| x.0 == t) => "reply-for-absent-address",
                    _ => "reply-differs-from-isolated-sign",
                };
                viol.push(("reply".into(), format!("{}:{}", cls, kind), format!("{} on bus {:?}: bus replied {:?}, the addressed sign alone replies {:?}", msg_str(m), self.cfg.signs, reply.as_ref().map(|x| msg_str(x)), want_reply.as_ref().map(|x| msg_str(x)))));
            }
            for i in 0..n {
                if !obs_equal(bus.sign(i), &iso[i]) {
                    let role = match target {
                        Some(t) if t == self.cfg.signs[i].0 => "addressed-sign-differs-from-itself-alone",
                        Some(_) => "other-sign-changed",
                        None => {
                            if receiving(s.iso[i].state()) {
                                "receiving-sign-differs-from-itself-alone"
                            } else {
                                "non-receiving-sign-affected-by-unaddressed-message"
                            }
                        }
                    };
                    viol.push((
                        "isolation".into(),
                        format!("{}:{}-in-{:?}", role, kind, s.iso[i].state()),
                        format!(
                            "{} on bus {:?}: sign {:04X} is now state={:?} type={:?} pages={}, in isolation it is state={:?} type={:?} pages={}",
                            msg_str(m),
                            self.cfg.signs,
                            self.cfg.signs[i].0,
                            bus.sign(i).state(),
                            bus.sign(i).sign_type(),
                            bus.sign(i).pages().len(),
                            iso[i].state(),
                            iso[i].sign_type(),
                            iso[i].pages().len()
                        ),
                    ));
                }
            }
        }
        let diverged = !viol.is_empty();
        let outcome = if reply.is_some() { "reply" } else if bus != s.bus { "silent-change" } else { "ignored" };
        Step { next: if diverged { None } else { Some(BusState { bus, iso, shadow }) }, violations: viol, tags, outcome }
    }
}

pub fn msgs_json(msgs: &[Message<'static>]) -> Value {
    Value::Array(msgs.iter().map(msg_json).collect())
}
