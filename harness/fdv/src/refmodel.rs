//! Independent, deliberately boring reference models: arithmetic Intel-HEX encoder, index-arithmetic
//! parser, literal protocol code table, literal sign-type table, page geometry.

use flipdot_core::{Address, ChunkCount, Data, Frame, Message, MsgType, Offset, Operation, SignType, State};

fn hexdigit(n: u8) -> u8 {
    if n < 10 {
        b'0' + n
    } else {
        b'A' + (n - 10)
    }
}

/// The documented wire shape, computed arithmetically.
pub fn ref_encode(addr: u16, typ: u8, data: &[u8], newline: bool) -> Vec<u8> {
    assert!(data.len() <= 255);
    let mut fields: Vec<u8> = vec![data.len() as u8, (addr / 256) as u8, (addr % 256) as u8, typ];
    fields.extend_from_slice(data);
    let mut sum: u32 = 0;
    for &f in &fields {
        sum += f as u32;
    }
    let chk = ((256 - (sum % 256)) % 256) as u8;
    fields.push(chk);
    let mut out = vec![b':'];
    for f in fields {
        out.push(hexdigit(f / 16));
        out.push(hexdigit(f % 16));
    }
    if newline {
        out.push(b'\r');
        out.push(b'\n');
    }
    out
}

#[derive(Debug, Clone, PartialEq, Eq)]
pub enum RefParse {
    Accept { addr: u16, typ: u8, data: Vec<u8> },
    Malformed,
    LengthMismatch { declared: usize, actual: usize },
    BadChecksum { declared: u8, computed: u8 },
}

impl RefParse {
    pub fn class(&self) -> &'static str {
        match self {
            RefParse::Accept { .. } => "accept",
            RefParse::Malformed => "malformed",
            RefParse::LengthMismatch { .. } => "length-mismatch",
            RefParse::BadChecksum { .. } => "bad-checksum",
        }
    }
}

fn hexval(c: u8) -> Option<u8> {
    match c {
        b'0'..=b'9' => Some(c - b'0'),
        b'A'..=b'F' => Some(c - b'A' + 10),
        b'a'..=b'f' => Some(c - b'a' + 10),
        _ => None,
    }
}

/// Hand-written parser of the documented form: ':' + hex pairs (either case) + optional single CRLF.
pub fn ref_parse(bytes: &[u8]) -> RefParse {
    let mut body = bytes;
    if body.len() >= 2 && body[body.len() - 2] == b'\r' && body[body.len() - 1] == b'\n' {
        body = &body[..body.len() - 2];
    }
    if body.is_empty() || body[0] != b':' {
        return RefParse::Malformed;
    }
    let digits = &body[1..];
    if digits.len() % 2 != 0 || digits.len() < 10 {
        return RefParse::Malformed;
    }
    let mut vals = Vec::with_capacity(digits.len() / 2);
    let mut i = 0;
    while i < digits.len() {
        match (hexval(digits[i]), hexval(digits[i + 1])) {
            (Some(h), Some(l)) => vals.push(h * 16 + l),
            _ => return RefParse::Malformed,
        }
        i += 2;
    }
    let declared = vals[0] as usize;
    let actual = vals.len() - 5;
    if declared != actual {
        return RefParse::LengthMismatch { declared, actual };
    }
    let mut sum: u32 = 0;
    for &v in &vals[..vals.len() - 1] {
        sum += v as u32;
    }
    let computed = ((256 - (sum % 256)) % 256) as u8;
    let provided = vals[vals.len() - 1];
    if computed != provided {
        return RefParse::BadChecksum {
            declared: provided,
            computed,
        };
    }
    RefParse::Accept {
        addr: (vals[1] as u16) * 256 + vals[2] as u16,
        typ: vals[3],
        data: vals[4..vals.len() - 1].to_vec(),
    }
}

pub const STATES: [(State, u8); 13] = [
    (State::Unconfigured, 0x0F),
    (State::ConfigInProgress, 0x0D),
    (State::ConfigReceived, 0x07),
    (State::ConfigFailed, 0x0C),
    (State::PixelsInProgress, 0x03),
    (State::PixelsReceived, 0x01),
    (State::PixelsFailed, 0x0B),
    (State::PageLoaded, 0x10),
    (State::PageLoadInProgress, 0x13),
    (State::PageShown, 0x12),
    (State::PageShowInProgress, 0x11),
    (State::ShowingPages, 0x00),
    (State::ReadyToReset, 0x08),
];

/// (operation, request code, acknowledgement code)
pub const OPS: [(Operation, u8, u8); 6] = [
    (Operation::ReceiveConfig, 0xA1, 0x95),
    (Operation::ReceivePixels, 0xA2, 0x91),
    (Operation::ShowLoadedPage, 0xA9, 0x96),
    (Operation::LoadNextPage, 0xAA, 0x97),
    (Operation::StartReset, 0xA6, 0x93),
    (Operation::FinishReset, 0xA7, 0x94),
];

/// Kind name of a message (for histograms / samples).
pub fn kind_name(m: &Message<'_>) -> &'static str {
    match m {
        Message::SendData(..) => "SendData",
        Message::DataChunksSent(..) => "DataChunksSent",
        Message::Hello(..) => "Hello",
        Message::QueryState(..) => "QueryState",
        Message::ReportState(..) => "ReportState",
        Message::RequestOperation(..) => "RequestOperation",
        Message::AckOperation(..) => "AckOperation",
        Message::PixelsComplete(..) => "PixelsComplete",
        Message::Goodbye(..) => "Goodbye",
        Message::Unknown(..) => "Unknown",
        _ => "?",
    }
}

/// The protocol table of the statement, literally: which message a frame (addr, type, data) is.
pub fn ref_classify(addr: u16, typ: u8, data: &[u8]) -> Message<'static> {
    let unknown = || {
        Message::Unknown(Frame::new(
            Address(addr),
            MsgType(typ),
            Data::try_new(data.to_vec()).unwrap(),
        ))
    };
    if typ == 0 {
        return Message::SendData(Offset(addr), Data::try_new(data.to_vec()).unwrap());
    }
    if typ == 1 && data.is_empty() {
        return Message::DataChunksSent(ChunkCount(addr));
    }
    if data.len() != 1 {
        return unknown();
    }
    let b = data[0];
    match typ {
        2 => match b {
            0xFF => Message::Hello(Address(addr)),
            0x00 => Message::QueryState(Address(addr)),
            0x55 => Message::Goodbye(Address(addr)),
            _ => unknown(),
        },
        3 => match OPS.iter().find(|o| o.1 == b) {
            Some(o) => Message::RequestOperation(Address(addr), o.0),
            None => unknown(),
        },
        4 => match STATES.iter().find(|s| s.1 == b) {
            Some(s) => Message::ReportState(Address(addr), s.0),
            None => unknown(),
        },
        5 => match OPS.iter().find(|o| o.2 == b) {
            Some(o) => Message::AckOperation(Address(addr), o.0),
            None => unknown(),
        },
        6 => {
            if b == 0 {
                Message::PixelsComplete(Address(addr))
            } else {
                unknown()
            }
        }
        _ => unknown(),
    }
}

/// Reference (addr, type, data) of a specific message; None for Unknown.
pub fn ref_fields(m: &Message<'_>) -> (u16, u8, Vec<u8>) {
    match m {
        Message::SendData(Offset(o), d) => (*o, 0, d.get().to_vec()),
        Message::DataChunksSent(ChunkCount(c)) => (*c, 1, vec![]),
        Message::Hello(Address(a)) => (*a, 2, vec![0xFF]),
        Message::QueryState(Address(a)) => (*a, 2, vec![0x00]),
        Message::Goodbye(Address(a)) => (*a, 2, vec![0x55]),
        Message::ReportState(Address(a), s) => (*a, 4, vec![STATES.iter().find(|x| x.0 == *s).unwrap().1]),
        Message::RequestOperation(Address(a), o) => (*a, 3, vec![OPS.iter().find(|x| x.0 == *o).unwrap().1]),
        Message::AckOperation(Address(a), o) => (*a, 5, vec![OPS.iter().find(|x| x.0 == *o).unwrap().2]),
        Message::PixelsComplete(Address(a)) => (*a, 6, vec![0x00]),
        Message::Unknown(f) => (f.address().0, f.message_type().0, f.data().to_vec()),
        _ => unreachable!("new message kind"),
    }
}

/// Reference wire encoding of a message (with CRLF).
pub fn ref_wire(m: &Message<'_>) -> Vec<u8> {
    let (a, t, d) = ref_fields(m);
    ref_encode(a, t, &d, true)
}

/// Literal sign-type table: (type, family, id, width, height).
pub const SIGN_TYPES: [(SignType, u8, u8, u32, u32); 11] = [
    (SignType::Max3000Front112x16, 0x04, 0x47, 112, 16),
    (SignType::Max3000Front98x16, 0x04, 0x4D, 98, 16),
    (SignType::Max3000Side90x7, 0x04, 0x20, 90, 7),
    (SignType::Max3000Rear30x10, 0x04, 0x62, 30, 10),
    (SignType::Max3000Rear23x10, 0x04, 0x61, 23, 10),
    (SignType::Max3000Dash30x7, 0x04, 0x26, 30, 7),
    (SignType::HorizonFront160x16, 0x08, 0xB1, 160, 16),
    (SignType::HorizonFront140x16, 0x08, 0xB2, 140, 16),
    (SignType::HorizonSide96x8, 0x08, 0xB4, 96, 8),
    (SignType::HorizonRear48x16, 0x08, 0xB5, 48, 16),
    (SignType::HorizonDash40x12, 0x08, 0xB9, 40, 12),
];

pub fn ref_dims(t: SignType) -> (u32, u32) {
    let e = SIGN_TYPES.iter().find(|e| e.0 == t).unwrap();
    (e.3, e.4)
}

/// Page geometry from the statement of C07.
pub fn bytes_per_col(h: u64) -> u64 {
    (h + 7) / 8
}
pub fn data_end(w: u64, h: u64) -> u64 {
    4 + w * bytes_per_col(h)
}
pub fn padded(w: u64, h: u64) -> u64 {
    let d = data_end(w, h);
    if d % 16 == 0 {
        d
    } else {
        d + (16 - d % 16)
    }
}

/// What a virtual sign derives from a 16-byte block while configuring: Some((w,h)) if the family is known.
pub fn ref_block_dims(block: &[u8]) -> Option<(u32, u32)> {
    if block.len() != 16 {
        return None;
    }
    match block[0] {
        0x04 => Some((
            block[5] as u32 + block[6] as u32 + block[7] as u32 + block[8] as u32,
            block[4] as u32,
        )),
        0x08 => Some((block[7] as u32, block[5] as u32)),
        _ => None,
    }
}

pub fn ref_block_type(block: &[u8]) -> Option<SignType> {
    if block.len() != 16 {
        return None;
    }
    SIGN_TYPES.iter().find(|e| e.1 == block[0] && e.2 == block[1]).map(|e| e.0)
}

/// Owned ('static) copy of a message.
pub fn own(m: &Message<'_>) -> Message<'static> {
    match m {
        Message::SendData(o, d) => Message::SendData(*o, Data::try_new(d.get().to_vec()).unwrap()),
        Message::DataChunksSent(c) => Message::DataChunksSent(*c),
        Message::Hello(a) => Message::Hello(*a),
        Message::QueryState(a) => Message::QueryState(*a),
        Message::ReportState(a, s) => Message::ReportState(*a, *s),
        Message::RequestOperation(a, o) => Message::RequestOperation(*a, *o),
        Message::AckOperation(a, o) => Message::AckOperation(*a, *o),
        Message::PixelsComplete(a) => Message::PixelsComplete(*a),
        Message::Goodbye(a) => Message::Goodbye(*a),
        Message::Unknown(f) => Message::Unknown(Frame::new(
            f.address(),
            f.message_type(),
            Data::try_new(f.data().to_vec()).unwrap(),
        )),
        _ => unreachable!("new message kind"),
    }
}

/// Compact JSON-friendly rendering of a message.
pub fn msg_str(m: &Message<'_>) -> String {
    match m {
        Message::SendData(Offset(o), d) => {
            let d = d.get();
            if d.len() <= 20 {
                format!("SendData({:04X},{})", o, crate::util::hex(d))
            } else {
                format!("SendData({:04X},{}..[{}])", o, crate::util::hex(&d[..8]), d.len())
            }
        }
        Message::DataChunksSent(ChunkCount(c)) => format!("DataChunksSent({})", c),
        Message::Hello(Address(a)) => format!("Hello({:04X})", a),
        Message::QueryState(Address(a)) => format!("QueryState({:04X})", a),
        Message::ReportState(Address(a), s) => format!("ReportState({:04X},{:?})", a, s),
        Message::RequestOperation(Address(a), o) => format!("Request({:04X},{:?})", a, o),
        Message::AckOperation(Address(a), o) => format!("Ack({:04X},{:?})", a, o),
        Message::PixelsComplete(Address(a)) => format!("PixelsComplete({:04X})", a),
        Message::Goodbye(Address(a)) => format!("Goodbye({:04X})", a),
        Message::Unknown(f) => format!(
            "Unknown({:04X},{:02X},{})",
            f.address().0,
            f.message_type().0,
            crate::util::hex(f.data())
        ),
        _ => "?".into(),
    }
}

/// Full-fidelity JSON encoding of a message as its frame triple.
pub fn msg_json(m: &Message<'_>) -> serde_json::Value {
    let (a, t, d) = ref_fields(m);
    serde_json::json!({"kind": kind_name(m), "addr": a, "type": t, "data": crate::util::hex(&d)})
}

/// Inverse of msg_json, using the harness's own table (so that replay files do not depend on the
/// implementation's From<Frame>).
pub fn msg_from_json(v: &serde_json::Value) -> Message<'static> {
    let a = v["addr"].as_u64().unwrap() as u16;
    let t = v["type"].as_u64().unwrap() as u8;
    let d = crate::util::unhex(v["data"].as_str().unwrap());
    if v["kind"].as_str() == Some("Unknown") {
        Message::Unknown(Frame::new(Address(a), MsgType(t), Data::try_new(d).unwrap()))
    } else {
        ref_classify(a, t, &d)
    }
}


// ---------------------------------------------------------------------------------------------------------
// The implementation's own codec, taken as given by the transport-level properties (C15-C18): "that message's frame
// encoding" and "its decoding" are whatever Frame/Message conversion and Frame::from_bytes/to_bytes produce; whether
// those are right is decided by C01-C05, not by the transport checks.

/// `Frame::from(message).to_bytes_with_newline()`; falls back to the reference encoding if that panics.
pub fn impl_wire(m: &Message<'_>) -> Vec<u8> {
    let mm = own(m);
    crate::util::catch(move || flipdot_core::Frame::from(mm).to_bytes_with_newline()).unwrap_or_else(|_| ref_wire(m))
}

/// `Frame::from_bytes(line)` then `Message::from`: Some(Ok(message)) / Some(Err(debug text)) / None if it panicked.
pub fn impl_decode_msg(line: &[u8]) -> Option<Result<Message<'static>, String>> {
    let l = line.to_vec();
    crate::util::catch(move || flipdot_core::Frame::from_bytes(&l).map(|f| own(&Message::from(f))).map_err(|e| format!("{:?}", e))).ok()
}
