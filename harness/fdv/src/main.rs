use std::path::PathBuf;
use std::time::Instant;

use fdv::props;
use fdv::report::{finish, Ctx, Tier};

fn usage() -> ! {
    eprintln!("usage: fdv-check <ID> [--tier quick|thorough] [--replay <file>]   (env: VERIF_TIER, VERIF_SEED, VERIF_DIR, VERIF_THREADS, VERIF_BUDGET_S)");
    std::process::exit(2);
}

fn main() {
    let args: Vec<String> = std::env::args().skip(1).collect();
    if args.is_empty() {
        usage();
    }
    let id = args[0].clone();
    let mut tier = match std::env::var("VERIF_TIER").as_deref() {
        Ok("thorough") => Tier::Thorough,
        _ => Tier::Quick,
    };
    let mut replay: Option<String> = None;
    let mut i = 1;
    while i < args.len() {
        match args[i].as_str() {
            "--tier" if i + 1 < args.len() => {
                tier = match args[i + 1].as_str() {
                    "thorough" => Tier::Thorough,
                    "quick" => Tier::Quick,
                    _ => usage(),
                };
                i += 2;
            }
            "--replay" if i + 1 < args.len() => {
                replay = Some(args[i + 1].clone());
                i += 2;
            }
            _ => usage(),
        }
    }
    let seed = std::env::var("VERIF_SEED").ok().and_then(|s| s.parse::<i64>().ok()).map(|v| v as u64).unwrap_or(0);
    let verif_dir = PathBuf::from(std::env::var("VERIF_DIR").unwrap_or_else(|_| "/verif".into()));
    let ctx = Ctx { id: id.clone(), tier, seed, start: Instant::now(), verif_dir };

    if let Some(path) = replay {
        let text = match std::fs::read_to_string(&path) {
            Ok(t) => t,
            Err(e) => {
                eprintln!("cannot read {}: {}", path, e);
                std::process::exit(2);
            }
        };
        let doc: serde_json::Value = match serde_json::from_str(&text) {
            Ok(d) => d,
            Err(e) => {
                eprintln!("bad replay file: {}", e);
                std::process::exit(2);
            }
        };
        let case = if doc.get("case").is_some() { doc["case"].clone() } else { doc.clone() };
        match props::replay(&ctx, &case) {
            Ok(vs) if vs.is_empty() => {
                println!("[{}] replay of {}: property held on this case", id, path);
                std::process::exit(0);
            }
            Ok(vs) => {
                for v in &vs {
                    println!("VIOLATION property={} replay={}", id, path);
                    println!("  signature: {}", v.sig(&id));
                    println!("  detail: {}", v.detail);
                }
                std::process::exit(1);
            }
            Err(e) => {
                eprintln!("MACHINERY: replay failed: {}", e);
                std::process::exit(2);
            }
        }
    }

    // Last-resort watchdog: every phase polls the soft budget, so this only fires when the code under test makes a
    // single step or a phase without a poll point run away. It is a machinery exit, never a verdict.
    {
        let hard = std::env::var("VERIF_HARD_LIMIT_S").ok().and_then(|s| s.parse::<f64>().ok()).unwrap_or(ctx.budget_s() * 6.0 + 120.0);
        let wid = id.clone();
        std::thread::spawn(move || {
            std::thread::sleep(std::time::Duration::from_secs_f64(hard));
            eprintln!("MACHINERY: [{}] hard wall-clock limit of {:.0} s reached; the run is abandoned without a verdict", wid, hard);
            std::process::exit(2);
        });
    }
    // A panic that escapes a check is a panic of the harness's own set-up code, typically inside a library call used
    // to build test data (a page, a frame) on a tree where that call is broken: another property's business, and for
    // this one a machinery exit, never a verdict.
    let ran = fdv::util::catch(|| props::run(&ctx));
    let rep = match ran {
        Ok(Some(rep)) => rep,
        Ok(None) => {
            eprintln!("unknown property id {}", id);
            std::process::exit(2);
        }
        Err(p) => {
            eprintln!("MACHINERY: [{}] the harness panicked outside a judged call ({} at {}); no verdict for this property", id, p.message, p.location);
            std::process::exit(2);
        }
    };
    let code = match fdv::util::catch(move || finish(rep, &|c, v| props::replay(c, v))) {
        Ok(code) => code,
        Err(p) => {
            eprintln!("MACHINERY: [{}] the harness panicked while confirming or writing its results ({} at {}); no verdict", id, p.message, p.location);
            2
        }
    };
    std::process::exit(code);
}
