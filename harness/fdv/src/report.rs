//! Run context, violation collection, known-findings handling, evidence + replay writers.

use std::collections::BTreeMap;
use std::path::PathBuf;
use std::time::Instant;

use serde_json::{json, Map, Value};

use crate::util::{fnv, Histo};

#[derive(Debug, Clone, Copy, PartialEq, Eq)]
pub enum Tier {
    Quick,
    Thorough,
}

impl Tier {
    pub fn name(self) -> &'static str {
        match self {
            Tier::Quick => "quick",
            Tier::Thorough => "thorough",
        }
    }
    pub fn thorough(self) -> bool {
        self == Tier::Thorough
    }
}

#[derive(Debug, Clone)]
pub struct Ctx {
    pub id: String,
    pub tier: Tier,
    pub seed: u64,
    pub start: Instant,
    pub verif_dir: PathBuf,
}

impl Ctx {
    pub fn elapsed(&self) -> f64 {
        self.start.elapsed().as_secs_f64()
    }
    /// Soft wall-clock budget of one engine run.
    pub fn budget_s(&self) -> f64 {
        let def = match self.tier {
            Tier::Quick => 45.0,
            Tier::Thorough => 1500.0,
        };
        std::env::var("VERIF_BUDGET_S").ok().and_then(|s| s.parse().ok()).unwrap_or(def)
    }
    pub fn over_budget(&self) -> bool {
        self.elapsed() > self.budget_s()
    }
}

/// One violated oracle clause on one concrete case.
#[derive(Debug, Clone)]
pub struct Violation {
    /// Which clause of the oracle failed (short, stable).
    pub clause: String,
    /// Class of the failure (panic site, mismatch class); part of the signature.
    pub class: String,
    /// Human readable description of expected vs observed.
    pub detail: String,
    /// Self-contained replayable description of the case (first field `kind` selects the replayer).
    pub case: Value,
    /// Ordering key: the smallest is kept per signature (simplest-first enumeration order).
    pub order: u64,
}

impl Violation {
    pub fn new(clause: &str, class: impl Into<String>, detail: impl Into<String>, case: Value, order: u64) -> Self {
        Violation {
            clause: clause.to_string(),
            class: class.into(),
            detail: detail.into(),
            case,
            order,
        }
    }
    pub fn sig(&self, id: &str) -> String {
        let raw = format!("{}/{}/{}", id, self.clause, self.class);
        raw.chars()
            .map(|c| if c.is_whitespace() { '_' } else { c })
            .collect()
    }
}

/// Per-worker accumulator shared by all engines.
#[derive(Default, Debug)]
pub struct Acc {
    pub evals: u64,
    pub nontrivial_fp: Vec<u64>,
    pub outcomes: Histo,
    pub viol: BTreeMap<String, Violation>,
    pub samples: Vec<Value>,
}

impl Acc {
    pub fn violation(&mut self, id: &str, v: Violation) {
        let sig = v.sig(id);
        match self.viol.get(&sig) {
            Some(old) if old.order <= v.order => {}
            _ => {
                self.viol.insert(sig, v);
            }
        }
    }
    pub fn merge(&mut self, id: &str, other: Acc) {
        self.evals += other.evals;
        self.nontrivial_fp.extend(other.nontrivial_fp);
        self.outcomes.merge(&other.outcomes);
        for (_, v) in other.viol {
            self.violation(id, v);
        }
        for s in other.samples {
            if self.samples.len() < 6 {
                self.samples.push(s);
            }
        }
    }
}

#[derive(Debug)]
pub struct Guard {
    pub name: String,
    pub ok: bool,
    pub detail: String,
}

pub struct Report {
    pub ctx: Ctx,
    pub violations: BTreeMap<String, Violation>,
    pub evaluations: u64,
    pub states: u64,
    pub transitions: u64,
    pub distinct_nontrivial: u64,
    pub rule: String,
    pub samples: Vec<Value>,
    pub outcomes: Histo,
    pub guards: Vec<Guard>,
    pub extra: Map<String, Value>,
    pub exhaustive: bool,
    pub caps_hit: Vec<String>,
    pub assumptions: Vec<String>,
    pub trusted_base: Vec<String>,
    pub machinery_errors: Vec<String>,
}

impl Report {
    pub fn new(ctx: &Ctx) -> Self {
        Report {
            ctx: ctx.clone(),
            violations: BTreeMap::new(),
            evaluations: 0,
            states: 0,
            transitions: 0,
            distinct_nontrivial: 0,
            rule: String::new(),
            samples: vec![],
            outcomes: Histo::default(),
            guards: vec![],
            extra: Map::new(),
            exhaustive: true,
            caps_hit: vec![],
            assumptions: vec![],
            trusted_base: vec![],
            machinery_errors: vec![],
        }
    }

    pub fn violation(&mut self, v: Violation) {
        let sig = v.sig(&self.ctx.id);
        match self.violations.get(&sig) {
            Some(old) if old.order <= v.order => {}
            _ => {
                self.violations.insert(sig, v);
            }
        }
    }

    pub fn absorb(&mut self, acc: Acc) -> u64 {
        self.evaluations += acc.evals;
        self.outcomes.merge(&acc.outcomes);
        for (_, v) in acc.viol {
            self.violation(v);
        }
        for s in acc.samples {
            if self.samples.len() < 12 {
                self.samples.push(s);
            }
        }
        let n = crate::util::count_distinct(acc.nontrivial_fp);
        self.distinct_nontrivial += n;
        n
    }

    pub fn guard(&mut self, name: &str, ok: bool, detail: impl Into<String>) {
        self.guards.push(Guard {
            name: name.to_string(),
            ok,
            detail: detail.into(),
        });
    }

    pub fn sample(&mut self, v: Value) {
        if self.samples.len() < 12 {
            self.samples.push(v);
        }
    }

    pub fn set(&mut self, k: &str, v: Value) {
        self.extra.insert(k.to_string(), v);
    }

    pub fn cap(&mut self, what: impl Into<String>) {
        self.exhaustive = false;
        self.caps_hit.push(what.into());
    }
}

#[derive(Debug, Clone)]
pub struct KnownEntry {
    pub fixed: bool,
    pub property: String,
    pub sig: Option<String>,
    pub text: String,
}

pub fn load_known(ctx: &Ctx) -> Vec<KnownEntry> {
    let path = ctx.verif_dir.join("known_findings.txt");
    let Ok(s) = std::fs::read_to_string(&path) else {
        return vec![];
    };
    let mut out = vec![];
    for line in s.lines() {
        let line = line.trim();
        if line.is_empty() || line.starts_with('#') {
            continue;
        }
        let (fixed, rest) = if let Some(r) = line.strip_prefix("fixed:") {
            (true, r.trim())
        } else if let Some(r) = line.strip_prefix("known:") {
            (false, r.trim())
        } else {
            continue;
        };
        let mut property = String::new();
        let mut sig = None;
        let mut text = vec![];
        for tok in rest.split_whitespace() {
            if let Some(p) = tok.strip_prefix("property=") {
                if property.is_empty() {
                    property = p.to_string();
                    continue;
                }
            }
            if let Some(s) = tok.strip_prefix("sig=") {
                if sig.is_none() {
                    sig = Some(s.to_string());
                    continue;
                }
            }
            text.push(tok);
        }
        out.push(KnownEntry {
            fixed,
            property,
            sig,
            text: text.join(" "),
        });
    }
    out
}

/// Replayer: re-executes a case and returns the violations (signatures) it produces.
pub type Replayer = dyn Fn(&Ctx, &Value) -> Result<Vec<Violation>, String>;

/// Writes replays + evidence, prints the verdict lines, returns the process exit code.
pub fn finish(mut rep: Report, replayer: &Replayer) -> i32 {
    let ctx = rep.ctx.clone();
    let id = ctx.id.clone();
    let known = load_known(&ctx);

    // 1. replay determinism: each violation must reproduce its own signature twice.
    let mut confirmed: Vec<(String, Violation)> = vec![];
    for (sig, v) in rep.violations.iter() {
        let mut ok = true;
        for round in 0..2 {
            match replayer(&ctx, &v.case) {
                Ok(vs) => {
                    if !vs.iter().any(|x| &x.sig(&id) == sig) {
                        rep.machinery_errors.push(format!(
                            "replay round {} of {} did not reproduce the violation (got {:?})",
                            round,
                            sig,
                            vs.iter().map(|x| x.sig(&id)).collect::<Vec<_>>()
                        ));
                        ok = false;
                    }
                }
                Err(e) => {
                    rep.machinery_errors.push(format!("replay of {} failed: {}", sig, e));
                    ok = false;
                }
            }
        }
        if ok {
            confirmed.push((sig.clone(), v.clone()));
        }
    }

    // 2. write replay files
    let rdir = ctx.verif_dir.join("replays").join(&id);
    let _ = std::fs::create_dir_all(&rdir);
    let mut new_lines = vec![];
    let mut known_lines = vec![];
    let mut new_count = 0;
    for (sig, v) in &confirmed {
        let fname = format!(
            "{}-{:016x}.json",
            v.clause.chars().map(|c| if c.is_ascii_alphanumeric() { c } else { '_' }).collect::<String>(),
            fnv(sig.as_bytes())
        );
        let path = rdir.join(fname);
        let doc = json!({
            "property_id": id,
            "signature": sig,
            "clause": v.clause,
            "class": v.class,
            "detail": v.detail,
            "case": v.case,
        });
        let _ = std::fs::write(&path, serde_json::to_string_pretty(&doc).unwrap());
        let k = known.iter().find(|k| !k.fixed && k.property == id && k.sig.as_deref() == Some(sig.as_str()));
        if let Some(k) = k {
            known_lines.push(format!("KNOWN-FINDING: property={} sig={} {}", id, sig, k.text));
        } else {
            new_count += 1;
            if new_lines.len() < 10 {
                new_lines.push((format!("VIOLATION property={} replay={}", id, path.display()), sig.clone(), v.detail.clone()));
            }
        }
    }

    // 3. guards
    let guards_failed: Vec<&Guard> = rep.guards.iter().filter(|g| !g.ok).collect();
    // A guard asks "did the exploration reach the situations the property talks about". When the exploration was
    // cut short by a cap (state space larger than on the reference tree, slow machine), an unmet guard says nothing
    // about the machinery: it is reported as a note, the run counts as non-exhaustive, and the verdict is the one
    // for what was explored.
    // Likewise a tree on which a situation has become unreachable (a controller that can no longer configure a
    // sign, say) is not a broken harness: the property held on everything explored, which is what exit 0 means, and
    // the unmet guard is printed and recorded. On the reference tree every guard must hold: tools/regen_evidence.sh
    // and tools/validate.py run with VERIF_STRICT_GUARDS=1, which turns an unmet guard into a machinery exit.
    let truncated = !rep.exhaustive;
    let strict = std::env::var("VERIF_STRICT_GUARDS").map(|v| v == "1").unwrap_or(false);
    let mut notes: Vec<String> = vec![];
    for g in &guards_failed {
        if truncated {
            notes.push(format!("exploration was cut short ({}); coverage guard not met: {} ({})", rep.caps_hit.first().cloned().unwrap_or_default(), g.name, g.detail));
        } else if strict {
            rep.machinery_errors.push(format!("vacuity guard failed: {} ({})", g.name, g.detail));
        } else {
            notes.push(format!("coverage guard not met on this tree: {} ({})", g.name, g.detail));
        }
    }

    // 4. evidence
    let wall = ctx.elapsed();
    let mut cov = Map::new();
    cov.insert("states".into(), json!(rep.states.max(1)));
    cov.insert("transitions".into(), json!(rep.transitions.max(1)));
    cov.insert("traces_validated_against_impl".into(), json!(rep.transitions));
    cov.insert("evaluations".into(), json!(rep.evaluations.max(rep.transitions)));
    cov.insert("distinct_nontrivial".into(), json!(rep.distinct_nontrivial));
    cov.insert("rule".into(), json!(rep.rule));
    let mut samples = rep.samples.clone();
    if samples.is_empty() {
        samples.push(json!("(no sample recorded)"));
    }
    cov.insert("samples".into(), Value::Array(samples));
    cov.insert("exhaustive".into(), json!(rep.exhaustive));
    cov.insert("caps_hit".into(), json!(rep.caps_hit));
    cov.insert("outcome_histogram".into(), rep.outcomes.to_json());
    cov.insert("distinct_outcomes".into(), json!(rep.outcomes.0.len()));
    cov.insert(
        "guards".into(),
        Value::Array(
            rep.guards
                .iter()
                .map(|g| json!({"name": g.name, "ok": g.ok, "detail": g.detail}))
                .collect(),
        ),
    );
    cov.insert("trusted_base".into(), json!(rep.trusted_base));
    cov.insert(
        "violation_signatures".into(),
        json!(confirmed.iter().map(|(s, _)| s.clone()).collect::<Vec<_>>()),
    );
    cov.insert("machinery_errors".into(), json!(rep.machinery_errors));
    cov.insert("notes".into(), json!(notes));
    for (k, v) in rep.extra.iter() {
        cov.insert(k.clone(), v.clone());
    }
    let ev = json!({
        "property_id": id,
        "tier": ctx.tier.name(),
        "seed": ctx.seed,
        "level": "model_checking",
        "coverage": Value::Object(cov),
        "assumptions": rep.assumptions,
        "wall_s": (wall * 1000.0).round() / 1000.0,
        "violations": new_count,
    });
    let edir = ctx.verif_dir.join("evidence");
    let _ = std::fs::create_dir_all(&edir);
    let epath = edir.join(format!("{}.json", id));
    if let Err(e) = std::fs::write(&epath, serde_json::to_string_pretty(&ev).unwrap()) {
        eprintln!("cannot write evidence {}: {}", epath.display(), e);
        return 2;
    }

    // 5. verdict
    println!(
        "[{}] tier={} states={} transitions={} evaluations={} distinct_nontrivial={} exhaustive={} wall={:.1}s",
        id,
        ctx.tier.name(),
        rep.states,
        rep.transitions,
        rep.evaluations.max(rep.transitions),
        rep.distinct_nontrivial,
        rep.exhaustive,
        wall
    );
    for l in &known_lines {
        println!("{}", l);
    }
    for (l, sig, detail) in &new_lines {
        println!("{}", l);
        println!("  signature: {}", sig);
        println!("  detail: {}", detail);
    }
    for n in &notes {
        println!("NOTE: {}", n);
    }
    for c in rep.caps_hit.iter().take(3) {
        println!("NOTE: cap reached: {}", c);
    }
    if rep.caps_hit.len() > 3 {
        println!("NOTE: ... and {} more caps (all listed in the evidence file)", rep.caps_hit.len() - 3);
    }
    if !rep.machinery_errors.is_empty() {
        for e in &rep.machinery_errors {
            eprintln!("MACHINERY: {}", e);
        }
    }
    if new_count > 0 {
        1
    } else if !rep.machinery_errors.is_empty() {
        2
    } else {
        println!("[{}] OK", id);
        0
    }
}
