//! Reference automaton of the sign side of the protocol (C13), written from the documentation:
//! 13 states, legality table for the six operations, chunk accounting, page assembly.

use flipdot_core::{Address, ChunkCount, Message, Offset, Operation, SignType, State};

use crate::refmodel::{padded, ref_block_dims, ref_block_type};

#[derive(Clone, PartialEq, Eq, Hash, Debug)]
pub struct RefSign {
    pub addr: u16,
    pub automatic: bool,
    pub state: State,
    pub w: u32,
    pub h: u32,
    pub typ: Option<SignType>,
    pub pages: Vec<Vec<u8>>,
    pub page_dims: Vec<(u32, u32)>,
    pub buf: Vec<u8>,
    pub count: u32,
    /// A buffer of the wrong length was dropped during the current pixel transfer (don't-care 1).
    pub bad_page: bool,
    /// The current pixel transfer has been well formed so far: every page started with an offset-0 chunk, every
    /// other chunk carried the offset at which it was appended, no buffer outgrew or fell short of a page.
    pub clean: bool,
    /// Every data byte that arrived during the current pixel transfer, in arrival order (empty outside a transfer).
    /// While the transfer is well formed this is the stored pages followed by the buffer, so it adds no state.
    pub stream: Vec<u8>,
    /// Only the lock-step oracle of C13 needs the stream; shadows that merely bound a search leave it off.
    pub track_stream: bool,
    /// The last configuration attempt failed and no block has been digested since: whether the sign still knows
    /// the type and size it was told in the failed attempt is not in the statement (don't-care 4).
    pub cfg_open: bool,
    /// The current configuration attempt delivered a block that describes a sign without width or height: whether
    /// such a block counts as accepted is not in the statement, so the attempt may end received or failed.
    pub cfg_zero: bool,
    /// sign type before the current configuration attempt's block (what a sign that refuses the block keeps)
    pub prev_typ: Option<SignType>,
    /// This instance only bounds a search (every use except the lock-step oracle of C13): `adopt` then forgets the
    /// oracle-only fields, so that the shadow does not split states the real object does not distinguish.
    pub bounds_only: bool,
}

/// What the statement fixes about `pages()` after a step.
#[derive(Clone, PartialEq, Eq, Debug)]
pub enum PagesRule {
    /// exactly the reference's pages
    Exact,
    /// only "complete pages of the configured size" (during a transfer the moment a page becomes visible is open)
    SizeOnly,
    /// as SizeOnly, and the reference continues from the implementation's pages (a transfer that failed, was
    /// malformed or was abandoned: which of its data survives is open)
    Adopt,
    /// a malformed transfer closed by a count equal to the number of chunks that arrived: if the implementation
    /// reports 'received' it claims to have accepted every chunk, so its pages must be assembled from them in
    /// arrival order: consecutive, non-overlapping pieces of the byte stream that arrived (then as Adopt)
    AdoptFromStream(Vec<u8>),
}

/// Where the statement leaves the behaviour open; the lock-step oracle adopts the implementation's choice.
#[derive(Clone, Copy, PartialEq, Eq, Debug)]
pub enum Open {
    No,
    /// count matched but a buffer of the wrong length was seen: received or failed are both allowed
    ReceivedOrFailed,
    /// count message while not receiving and a complete page is buffered: may or may not be stored
    MayFlushWhileIdle,
    /// configuration attempt with a zero-sized block: configuration received or failed are both allowed
    ConfigReceivedOrFailed,
}

impl RefSign {
    pub fn new(addr: u16, automatic: bool) -> Self {
        RefSign { addr, automatic, state: State::Unconfigured, w: 0, h: 0, typ: None, pages: vec![], page_dims: vec![], buf: vec![], count: 0, bad_page: false, clean: true, stream: vec![], track_stream: false, cfg_open: false, cfg_zero: false, prev_typ: None, bounds_only: true }
    }

    fn reset(&mut self) {
        let (track, bounds_only) = (self.track_stream, self.bounds_only);
        *self = RefSign::new(self.addr, self.automatic);
        self.track_stream = track;
        self.bounds_only = bounds_only;
    }

    pub fn receiving(&self) -> bool {
        matches!(self.state, State::ConfigInProgress | State::PixelsInProgress)
    }

    /// Stores the buffer as a page iff the sign has a size and the buffer is exactly one padded page.
    fn flush(&mut self) {
        if self.buf.is_empty() {
            return;
        }
        let data = std::mem::take(&mut self.buf);
        if self.w > 0 && self.h > 0 {
            if data.len() as u64 == padded(self.w as u64, self.h as u64) {
                self.pages.push(data);
                self.page_dims.push((self.w, self.h));
            } else {
                self.bad_page = true;
                self.clean = false;
            }
        } else {
            self.clean = false;
        }
    }

    pub fn op_legal(&self, op: Operation) -> bool {
        use State::*;
        match op {
            Operation::ReceiveConfig => matches!(self.state, Unconfigured | ConfigFailed),
            Operation::ReceivePixels => matches!(self.state, ConfigReceived | PixelsFailed | PageLoaded | PageLoadInProgress | PageShown | PageShowInProgress | ShowingPages),
            Operation::ShowLoadedPage => self.state == PageLoaded,
            Operation::LoadNextPage => self.state == PageShown,
            Operation::StartReset => true,
            Operation::FinishReset => self.state == ReadyToReset,
            _ => false,
        }
    }

    /// One step of the documented machine. Returns the reply and whether the statement leaves this step open.
    pub fn step(&mut self, m: &Message<'_>) -> (Option<Message<'static>>, Open) {
        let r = self.step_inner(m);
        if Self::strict() && !self.bounds_only {
            // strict reading: nothing about a transfer or a configuration attempt is ever open
            self.clean = true;
            self.cfg_open = false;
            self.cfg_zero = false;
        }
        if self.state != State::PixelsInProgress {
            self.stream.clear();
        }
        r
    }

    fn step_inner(&mut self, m: &Message<'_>) -> (Option<Message<'static>>, Open) {
        let own = Address(self.addr);
        match m {
            Message::Hello(a) | Message::QueryState(a) if *a == own => {
                let s = self.state;
                match s {
                    State::PageLoadInProgress => self.state = State::PageLoaded,
                    State::PageShowInProgress => self.state = State::PageShown,
                    _ => {}
                }
                (Some(Message::ReportState(own, s)), Open::No)
            }
            Message::RequestOperation(a, op) if *a == own => {
                if !self.op_legal(*op) {
                    return (None, Open::No);
                }
                match op {
                    Operation::ReceiveConfig => {
                        self.state = State::ConfigInProgress;
                        self.cfg_zero = false;
                    }
                    Operation::ReceivePixels => {
                        self.state = State::PixelsInProgress;
                        self.pages.clear();
                        self.page_dims.clear();
                        self.bad_page = false;
                        // with a configuration of open standing (don't-care 4) nothing about the transfer is fixed
                        self.clean = !self.cfg_open;
                        self.stream.clear();
                    }
                    Operation::ShowLoadedPage => self.state = State::PageShowInProgress,
                    Operation::LoadNextPage => self.state = State::PageLoadInProgress,
                    Operation::StartReset => self.state = State::ReadyToReset,
                    Operation::FinishReset => self.reset(),
                    _ => {}
                }
                (Some(Message::AckOperation(own, *op)), Open::No)
            }
            Message::SendData(Offset(off), data) => {
                let d = data.get();
                match self.state {
                    State::ConfigInProgress => {
                        if *off == 0 && d.len() == 16 {
                            if let Some((w, h)) = ref_block_dims(d) {
                                self.prev_typ = self.typ;
                                self.w = w;
                                self.h = h;
                                self.typ = ref_block_type(d);
                                self.count += 1;
                                self.cfg_open = w == 0 || h == 0;
                                self.cfg_zero = self.cfg_zero || w == 0 || h == 0;
                            }
                        }
                    }
                    State::PixelsInProgress => {
                        if *off == 0 {
                            self.flush();
                        } else if *off as usize != (self.buf.len() & 0xFFFF) {
                            self.clean = false;
                        }
                        self.buf.extend_from_slice(d);
                        if self.track_stream {
                            self.stream.extend_from_slice(d);
                        }
                        self.count += 1;
                        if self.w == 0 || self.h == 0 || self.buf.len() as u64 > padded(self.w as u64, self.h as u64) {
                            self.clean = false;
                        }
                    }
                    _ => {}
                }
                (None, Open::No)
            }
            Message::DataChunksSent(ChunkCount(c)) => {
                let matched = *c as u32 == self.count;
                match self.state {
                    State::ConfigInProgress => {
                        self.state = if matched { State::ConfigReceived } else { State::ConfigFailed };
                        if !matched {
                            self.cfg_open = true;
                        }
                        if self.cfg_zero {
                            self.cfg_open = true;
                            self.flush();
                            self.count = 0;
                            return (None, Open::ConfigReceivedOrFailed);
                        }
                        self.flush();
                        self.count = 0;
                        (None, Open::No)
                    }
                    State::PixelsInProgress => {
                        self.flush();
                        self.count = 0;
                        if !self.clean {
                            // adopt: caller sets the state from the implementation. In a malformed transfer the
                            // statement's "chunks it accepted" is open (an implementation may refuse a chunk that
                            // is out of sequence or would overflow the page), so both outcomes are allowed
                            self.state = if matched { State::PixelsReceived } else { State::PixelsFailed };
                            self.clean = true; // the transfer is over; the flag is meaningful during a transfer only
                            (None, Open::ReceivedOrFailed)
                        } else {
                            self.state = if matched { State::PixelsReceived } else { State::PixelsFailed };
                            (None, Open::No)
                        }
                    }
                    _ => {
                        let complete = !self.buf.is_empty() && self.w > 0 && self.h > 0 && self.buf.len() as u64 == padded(self.w as u64, self.h as u64);
                        if complete {
                            (None, Open::MayFlushWhileIdle)
                        } else {
                            (None, Open::No)
                        }
                    }
                }
            }
            Message::PixelsComplete(a) if *a == own => {
                if self.state == State::PixelsReceived {
                    self.state = if self.automatic { State::ShowingPages } else { State::PageLoaded };
                }
                (None, Open::No)
            }
            Message::Goodbye(a) if *a == own => {
                self.reset();
                (None, Open::No)
            }
            _ => (None, Open::No),
        }
    }

    /// For shadows that only bound a search: forget what only the lock-step oracle of C13 needs, so that the
    /// shadow does not split states the real object does not distinguish.
    pub fn normalize_for_bounds(&mut self) {
        self.clean = true;
        self.cfg_open = false;
        self.cfg_zero = false;
        self.prev_typ = None;
        self.stream.clear();
    }

    /// `VERIF_C13_STRICT=1` switches the don't-cares 1, 4 and 5 off: every chunk that arrives while receiving counts as
    /// accepted, configuration knowledge is never "open". This is the reading under which a sign that refuses
    /// out-of-sequence chunks (seed C13-w6-1 = benign B-C14-3) violates C13. Off by default (DESIGN.md section 7).
    pub fn strict() -> bool {
        static S: std::sync::OnceLock<bool> = std::sync::OnceLock::new();
        *S.get_or_init(|| std::env::var("VERIF_C13_STRICT").map(|v| v == "1").unwrap_or(false))
    }

    /// `step` plus the rule for `pages()` after it.
    pub fn step2(&mut self, m: &Message<'_>) -> (Option<Message<'static>>, Open, PagesRule) {
        let before = self.state;
        let own = Address(self.addr);
        let resets = match m {
            Message::Goodbye(a) if *a == own => true,
            Message::RequestOperation(a, Operation::FinishReset) if *a == own && before == State::ReadyToReset => true,
            _ => false,
        };
        let arrived = if before == State::PixelsInProgress { std::mem::take(&mut self.stream) } else { vec![] };
        let all_counted = matches!(m, Message::DataChunksSent(ChunkCount(c)) if *c as u32 == self.count);
        let (reply, open) = self.step(m);
        let after = self.state;
        if after == State::PixelsInProgress && before == State::PixelsInProgress {
            // still inside the transfer: keep the stream (step() has appended to the emptied vector)
            let mut s = arrived.clone();
            s.extend_from_slice(&self.stream);
            self.stream = s;
        }
        let rule = if resets {
            PagesRule::Exact
        } else if before == State::PixelsInProgress {
            if after == State::PixelsInProgress {
                PagesRule::SizeOnly
            } else if matches!(m, Message::DataChunksSent(_)) && open == Open::No && after == State::PixelsReceived {
                PagesRule::Exact
            } else if open == Open::ReceivedOrFailed && all_counted && self.track_stream {
                PagesRule::AdoptFromStream(arrived)
            } else {
                PagesRule::Adopt
            }
        } else if after == State::PixelsInProgress {
            PagesRule::SizeOnly
        } else {
            PagesRule::Exact
        };
        (reply, open, rule)
    }

    /// Continues from the implementation's pages (PagesRule::Adopt).
    pub fn adopt_pages(&mut self, pages: Vec<Vec<u8>>, dims: Vec<(u32, u32)>) {
        self.page_dims = dims;
        self.pages = pages;
    }

    /// Applies the implementation's choice for an open step.
    pub fn adopt(&mut self, open: Open, impl_state: State, impl_pages: usize) {
        if self.bounds_only {
            self.normalize_for_bounds();
        }
        match open {
            Open::No => {}
            Open::ReceivedOrFailed => {
                if impl_state == State::PixelsFailed || impl_state == State::PixelsReceived {
                    self.state = impl_state;
                }
            }
            Open::ConfigReceivedOrFailed => {
                if impl_state == State::ConfigReceived || impl_state == State::ConfigFailed {
                    self.state = impl_state;
                }
            }
            Open::MayFlushWhileIdle => {
                if impl_pages == self.pages.len() + 1 {
                    let data = std::mem::take(&mut self.buf);
                    self.pages.push(data);
                    self.page_dims.push((self.w, self.h));
                }
            }
        }
    }
}


/// Are `pages` consecutive, non-overlapping pieces (in order) of `stream`? Greedy leftmost matching is complete here.
pub fn pieces_of_stream(pages: &[Vec<u8>], stream: &[u8]) -> bool {
    let mut from = 0usize;
    for p in pages {
        if p.is_empty() {
            continue;
        }
        let Some(pos) = stream[from..].windows(p.len()).position(|w| w == &p[..]) else {
            return false;
        };
        from += pos + p.len();
    }
    true
}
